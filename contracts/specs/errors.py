from pyvc.specrt import *  # noqa


def error_message(line, column, text):
    # every parser error message starts with its own "(line:column): " position
    return "(" + itos(line) + ":" + itos(column) + "): " + text
