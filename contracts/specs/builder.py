# Executable specification of the AST builder (C03, C04, C11, C12, C13)
from pyvc.specrt import *  # noqa


def loc_at(token, column):
    # AstBuilder.get_location: the token's own location unless an item column is given (0 counts as "not given")
    return {"line": token.location["line"], "column": column} if column != 0 else token.location


def tag_of(token, item, idstr):
    return {"id": idstr, "location": loc_at(token, item["column"]), "name": item["text"]}


def tags_step(S, token, i, c0):
    # state (tags so far, items so far): the j-th item of a tag line gets the next id in order
    return (S[0] + seq_mapi(token.matched_items, lambda it, j: tag_of(token, it, itos(c0 + S[1] + j))),
            S[1] + len(token.matched_items))


def tags_flat(tokens, n, c0):
    return fold_prefix(tokens, n, (seq_empty("Tag"), 0), tags_step, c0)


def table_row_of(token, idstr):
    return {"id": idstr, "location": token.location, "cells": [row_cell(token, it) for it in token.matched_items]}


def spec_step(step_line, tables, docs, c0):
    base = {"id": itos(c0), "location": step_line.location, "keyword": opt_val(step_line.matched_keyword),
            "keywordType": opt_val(step_line.matched_keyword_type), "text": opt_val(step_line.matched_text)}
    return (opt_key(base, "dataTable", True, tables[0]) if len(tables) > 0
            else (opt_key(base, "docString", True, docs[0]) if len(docs) > 0 else base))


def ast_docstring(sep, others):
    # content = the content lines joined by line feeds; media type = text after the opening delimiter, absent when empty
    return opt_key({"location": sep.location, "content": join_lf_opt([t.matched_text for t in others]),
                    "delimiter": opt_val(sep.matched_keyword)},
                   "mediaType", len(opt_val(sep.matched_text)) > 0, opt_val(sep.matched_text))


def desc_keep_step(n, token, i):
    # number of description lines kept: up to and including the last line that is not whitespace-only
    return n if token.line.is_empty() else i + 1


def desc_keep(tokens, n):
    return fold_prefix(tokens, n, 0, desc_keep_step)


def spec_description(tokens):
    return join_lf_opt([t.matched_text for t in tokens[:desc_keep(tokens, len(tokens))]])


def desc_of(descs):
    return descs[0] if len(descs) > 0 else ""


def tags_of(header_tags_nodes, c0):
    # (tags, number of ids drawn)
    return (tags_flat(header_tags_nodes[0]._sub_items["TagLine"], len(header_tags_nodes[0]._sub_items["TagLine"]), c0)
            if len(header_tags_nodes) > 0 else (seq_empty("Tag"), 0))


def spec_background(line, descs, steps, c0):
    return {"id": itos(c0), "location": line.location, "keyword": opt_val(line.matched_keyword),
            "name": opt_val(line.matched_text), "description": desc_of(descs), "steps": steps}


def spec_scenario(tag_nodes, sc, c0):
    # tags first (ids c0 ..), then the scenario itself
    return {"id": itos(c0 + tags_of(tag_nodes, c0)[1]), "tags": tags_of(tag_nodes, c0)[0],
            "location": sc._sub_items["ScenarioLine"][0].location,
            "keyword": opt_val(sc._sub_items["ScenarioLine"][0].matched_keyword),
            "name": opt_val(sc._sub_items["ScenarioLine"][0].matched_text),
            "description": desc_of(sc._sub_items["Description"]), "steps": sc._sub_items["Step"],
            "examples": sc._sub_items["ExamplesDefinition"]}


def spec_examples(tag_nodes, ex, c0):
    base = {"id": itos(c0 + tags_of(tag_nodes, c0)[1]), "tags": tags_of(tag_nodes, c0)[0],
            "location": ex._sub_items["ExamplesLine"][0].location,
            "keyword": opt_val(ex._sub_items["ExamplesLine"][0].matched_keyword),
            "name": opt_val(ex._sub_items["ExamplesLine"][0].matched_text),
            "description": desc_of(ex._sub_items["Description"]),
            "tableBody": (ex._sub_items["ExamplesTable"][0][1:] if len(ex._sub_items["ExamplesTable"]) > 0
                          and len(ex._sub_items["ExamplesTable"][0]) > 0 else seq_empty("TableRow"))}
    return opt_key(base, "tableHeader",
                   len(ex._sub_items["ExamplesTable"]) > 0 and len(ex._sub_items["ExamplesTable"][0]) > 0,
                   ex._sub_items["ExamplesTable"][0][0])


def rule_children(backgrounds, scenarios):
    return (([{"background": backgrounds[0]}] if len(backgrounds) > 0 else seq_empty("RuleChild"))
            + [{"scenario": s} for s in scenarios])


def spec_rule(header, backgrounds, scenarios, c0):
    return {"id": itos(c0 + tags_of(header._sub_items["Tags"], c0)[1]), "tags": tags_of(header._sub_items["Tags"], c0)[0],
            "location": header._sub_items["RuleLine"][0].location,
            "keyword": opt_val(header._sub_items["RuleLine"][0].matched_keyword),
            "name": opt_val(header._sub_items["RuleLine"][0].matched_text),
            "description": desc_of(header._sub_items["Description"]),
            "children": rule_children(backgrounds, scenarios)}


def feature_children(backgrounds, scenarios, rules):
    return (([{"background": backgrounds[0]}] if len(backgrounds) > 0 else seq_empty("Envelope"))
            + [{"scenario": s} for s in scenarios] + [{"rule": r} for r in rules])


def spec_feature(header, backgrounds, scenarios, rules, c0):
    return {"tags": tags_of(header._sub_items["Tags"], c0)[0],
            "location": header._sub_items["FeatureLine"][0].location,
            "language": header._sub_items["FeatureLine"][0].matched_gherkin_dialect,
            "keyword": opt_val(header._sub_items["FeatureLine"][0].matched_keyword),
            "name": opt_val(header._sub_items["FeatureLine"][0].matched_text),
            "description": desc_of(header._sub_items["Description"]),
            "children": feature_children(backgrounds, scenarios, rules)}
