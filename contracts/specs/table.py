# Executable specification of table-row splitting (C12 text, C04 columns).
# The same text is (a) translated to SMT by pyvc and (b) run under CPython as the oracle.
from pyvc.specrt import *  # noqa

# state: (emitted cells, current cell text, start column of current cell, before-first-pipe, escape-pending)
def split_step(S, c, i):
    out, cur, start, first, esc = S
    return (
        (out, cur + ("\n" if c == "n" else (c if (c == "|" or c == "\\") else "\\" + c)), start, first, False) if esc
        else (((out if first else out + [(cur, start)]), "", i + 2, False, False) if c == "|"
              else ((out, cur, start, first, True) if c == "\\"
                    else (out, cur + c, start, first, False))))


def split_state(row, n):
    return fold_prefix(row, n, (seq_empty(TupleOf(Str, Int)), "", 1, True, False), split_step)


def spec_split(row):
    return split_state(row, len(row))[0]


def cell_of(cell, col, indent):
    # blanks (not line feeds) around the cell text are removed; the column is that of the first non-blank
    return {"column": col + indent + lead_blank(cell), "text": strip_blank(cell)}


def spec_cells(line_trimmed, indent):
    return [cell_of(p[0], p[1], indent) for p in spec_split(strip(line_trimmed))]
