# Executable specification of the pickle compiler (C06-C10).  Same text for SMT and for CPython.
from pyvc.specrt import *  # noqa


def interp_step(acc, h, i, vals):
    # one column: every occurrence of '<header>' is replaced by the row's value, both taken literally
    return replace_all(acc, "<" + h["value"] + ">", vals[i]["value"])


def interp_prefix(text, variables, values, n):
    return fold_prefix(variables, n, text, interp_step, values)


def interp(text, variables, values):
    # columns are applied in header order
    return interp_prefix(text, variables, values, len(variables))


def pickle_tag(tag):
    return {"astNodeId": tag["id"], "name": tag["name"]}


def pickle_tags(tags):
    return [pickle_tag(t) for t in tags]


def type_step(last, step, i):
    # a step written with an and/but keyword takes the type of the step before it
    return last if step["keywordType"] == "Conjunction" else step["keywordType"]


def eff_type(steps, n):
    # effective type after the first n steps; 'Unknown' before the first step
    return fold_prefix(steps, n, "Unknown", type_step)


def arg_cell(cell, variables, values):
    return {"value": interp(cell["value"], variables, values)}


def arg_row(row, variables, values):
    return {"cells": [arg_cell(c, variables, values) for c in row["cells"]]}


def spec_docstring(ds, variables, values):
    return opt_key({"content": interp(ds["content"], variables, values)}, "mediaType", "mediaType" in ds,
                   interp(ds["mediaType"], variables, values))


def spec_argument(step, variables, values):
    # data tables cell by cell, doc strings content and media type; None when the step has no argument
    return (typed("PickleArgumentEnvelope", {"dataTable": {"rows": [arg_row(r, variables, values)
                                                                     for r in step["dataTable"]["rows"]]}})
            if "dataTable" in step
            else (typed("PickleArgumentEnvelope", {"docString": spec_docstring(step["docString"], variables, values)})
                  if "docString" in step else None))
