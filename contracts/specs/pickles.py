# Executable specification of the pickle compiler (C06-C10).  Same text for SMT and for CPython.
from pyvc.specrt import *  # noqa


def interp_step(acc, h, i, vals):
    # one column: every occurrence of '<header>' is replaced by the row's value, both taken literally
    return replace_all(acc, "<" + h["value"] + ">", vals[i]["value"])


def interp_prefix(text, variables, values, n):
    return fold_prefix(variables, n, text, interp_step, values)


def interp(text, variables, values):
    # columns are applied in header order
    return interp_prefix(text, variables, values, len(variables))


def pickle_tag(tag):
    return {"astNodeId": tag["id"], "name": tag["name"]}


def pickle_tags(tags):
    return [pickle_tag(t) for t in tags]


def type_step(last, step, i):
    # a step written with an and/but keyword takes the type of the step before it
    return last if step["keywordType"] == "Conjunction" else step["keywordType"]


def eff_type(steps, n):
    # effective type after the first n steps; 'Unknown' before the first step
    return fold_prefix(steps, n, "Unknown", type_step)


def arg_cell(cell, variables, values):
    return {"value": interp(cell["value"], variables, values)}


def arg_row(row, variables, values):
    return {"cells": [arg_cell(c, variables, values) for c in row["cells"]]}


def spec_docstring(ds, variables, values):
    return opt_key({"content": interp(ds["content"], variables, values)}, "mediaType", "mediaType" in ds,
                   interp(ds["mediaType"], variables, values))


def spec_argument(step, variables, values):
    # data tables cell by cell, doc strings content and media type; None when the step has no argument
    return (typed("PickleArgumentEnvelope", {"dataTable": {"rows": [arg_row(r, variables, values)
                                                                     for r in step["dataTable"]["rows"]]}})
            if "dataTable" in step
            else (typed("PickleArgumentEnvelope", {"docString": spec_docstring(step["docString"], variables, values)})
                  if "docString" in step else None))


def spec_pstep(step, ktype, idstr, extra_ids, text, variables, values):
    # a pickle step points back to its source step (and the example row), carries a definite type, its text and,
    # when the step has one, its argument
    return opt_key({"astNodeIds": [step["id"]] + extra_ids, "id": idstr, "type": ktype, "text": text},
                   "argument", not is_none(spec_argument(step, variables, values)),
                   opt_val(spec_argument(step, variables, values)))


def scenario_steps(background_steps, scenario):
    # background steps are added only when the scenario has steps of its own
    return (background_steps + scenario["steps"]) if len(scenario["steps"]) > 0 else seq_empty("Step")


def plain_pstep(allsteps, j, c0):
    # j-th step of a plain scenario's pickle (background steps included): no substitution, no row id
    return spec_pstep(allsteps[j], eff_type(allsteps, j + 1), itos(c0 + j), seq_empty(Str), allsteps[j]["text"],
                      seq_empty("parser_types.Cell"), seq_empty("parser_types.Cell"))


# ---- scenario outlines: content of the pickles of all example rows (ids left empty; ids are a separate clause) ----
def outline_pstep(allsteps, nbg, j, header_cells, row):
    # background steps (j < nbg): no substitution, no row id; own steps: substituted, pointing at the example row
    return spec_pstep(
        allsteps[j], eff_type(allsteps, j + 1), "",
        (seq_empty(Str) + [row["id"]]) if j >= nbg else seq_empty(Str),
        interp(allsteps[j]["text"], header_cells, row["cells"]) if j >= nbg else allsteps[j]["text"],
        header_cells if j >= nbg else seq_empty("parser_types.Cell"),
        row["cells"] if j >= nbg else seq_empty("parser_types.Cell"))


def row_pickle(ex, row, scenario, inherited_tags, background_steps, uri, language):
    return {"astNodeIds": [scenario["id"], row["id"]], "id": "",
            "tags": pickle_tags(inherited_tags + scenario["tags"] + ex["tags"]),
            "name": interp(scenario["name"], ex["tableHeader"]["cells"], row["cells"]), "language": language,
            "steps": seq_mapi(scenario_steps(background_steps, scenario), lambda s, j: outline_pstep(
                scenario_steps(background_steps, scenario), len(background_steps), j, ex["tableHeader"]["cells"], row)),
            "uri": uri}


def examples_pickles(ex, scenario, inherited_tags, background_steps, uri, language):
    # one pickle per body row of an examples table that has a header; none otherwise
    return ([row_pickle(ex, row, scenario, inherited_tags, background_steps, uri, language) for row in ex["tableBody"]]
            if "tableHeader" in ex else seq_empty("Pickle"))


def flat_step(acc, ex, i, scenario, inherited_tags, background_steps, uri, language):
    return acc + examples_pickles(ex, scenario, inherited_tags, background_steps, uri, language)


def outline_flat(n, scenario, inherited_tags, background_steps, uri, language):
    return fold_prefix(scenario["examples"], n, seq_empty("Pickle"), flat_step, scenario, inherited_tags,
                       background_steps, uri, language)


def same_step(a, b):
    return (a["astNodeIds"] == b["astNodeIds"] and a["type"] == b["type"] and a["text"] == b["text"]
            and rec_has(a, "argument") == rec_has(b, "argument")
            and implies(rec_has(a, "argument"), a["argument"] == b["argument"]))


def same_source(p, q):
    return p["astNodeIds"] == q["astNodeIds"] and p["name"] == q["name"] and p["language"] == q["language"] and p["uri"] == q["uri"]


def same_tags(p, q):
    return p["tags"] == q["tags"]


def same_steps(p, q):
    return len(p["steps"]) == len(q["steps"]) and forall(len(p["steps"]), lambda j: same_step(p["steps"][j], q["steps"][j]))


def rectangular(scenario):
    return forall(len(scenario["examples"]), lambda e: implies(
        "tableHeader" in scenario["examples"][e],
        forall(len(scenario["examples"][e]["tableBody"]), lambda r:
               len(scenario["examples"][e]["tableBody"][r]["cells"]) >= len(scenario["examples"][e]["tableHeader"]["cells"]))))


# ---- plain scenarios, rules, features: content of all pickles in document order (ids left empty) ---------------
def plain_pstep_c(allsteps, j):
    return spec_pstep(allsteps[j], eff_type(allsteps, j + 1), "", seq_empty(Str), allsteps[j]["text"],
                      seq_empty("parser_types.Cell"), seq_empty("parser_types.Cell"))


def plain_pickle(scenario, inherited_tags, background_steps, uri, language):
    return {"astNodeIds": [scenario["id"]], "id": "", "tags": pickle_tags(inherited_tags + scenario["tags"]),
            "name": scenario["name"], "language": language,
            "steps": seq_mapi(scenario_steps(background_steps, scenario), lambda s, j: plain_pstep_c(
                scenario_steps(background_steps, scenario), j)),
            "uri": uri}


def scenario_pickles(scenario, inherited_tags, background_steps, uri, language):
    # a scenario without examples yields exactly one pickle; an outline one per example row
    return ((seq_empty("Pickle") + [plain_pickle(scenario, inherited_tags, background_steps, uri, language)])
            if len(scenario["examples"]) == 0
            else outline_flat(len(scenario["examples"]), scenario, inherited_tags, background_steps, uri, language))


def rule_step(S, child, i, uri, tags, language):
    # state: (pickles so far, background steps in scope): a background child extends the scope for what follows
    return ((S[0], S[1] + child["background"]["steps"]) if "background" in child
            else (S[0] + scenario_pickles(child["scenario"], tags, S[1], uri, language), S[1]))


def rule_flat(rule, n, feature_background_steps, tags, uri, language):
    return fold_prefix(rule["children"], n, (seq_empty("Pickle"), feature_background_steps), rule_step, uri, tags, language)


def rule_wf(rule):
    return forall(len(rule["children"]), lambda c: ("background" in rule["children"][c] or "scenario" in rule["children"][c])
                  and implies("scenario" in rule["children"][c] and not ("background" in rule["children"][c]),
                              rectangular(rule["children"][c]["scenario"])))


def feature_step(S, child, i, uri, ftags, language):
    return ((S[0], S[1] + child["background"]["steps"]) if "background" in child
            else ((S[0] + rule_flat(child["rule"], len(child["rule"]["children"]), S[1], ftags + child["rule"]["tags"],
                                    uri, language)[0], S[1]) if "rule" in child
                  else (S[0] + scenario_pickles(child["scenario"], ftags, S[1], uri, language), S[1])))


def feature_flat(feature, n, uri):
    return fold_prefix(feature["children"], n, (seq_empty("Pickle"), seq_empty("Step")), feature_step, uri,
                       feature["tags"], feature["language"])


def feature_wf(feature):
    return forall(len(feature["children"]), lambda c:
                  ("background" in feature["children"][c] or "rule" in feature["children"][c]
                   or "scenario" in feature["children"][c])
                  and implies("rule" in feature["children"][c] and not ("background" in feature["children"][c]),
                              rule_wf(feature["children"][c]["rule"]))
                  and implies("scenario" in feature["children"][c] and not ("background" in feature["children"][c])
                              and not ("rule" in feature["children"][c]),
                              rectangular(feature["children"][c]["scenario"])))
