from pyvc.specrt import *  # noqa


def tag_head(trimmed):
    # the tag line without a trailing " #comment": everything before the first <whitespace># pair
    t = strip(trimmed)
    p = first_ws_hash(t)
    return strip(t if p < 0 else t[:p])


def tag_items(trimmed):
    return split_on(tag_head(trimmed), "@")


def tag_cell(items, k, indent):
    # k-th tag (k >= 1): its '@' sits at 1-based column indent + off(k)
    return {"column": indent + split_off(items, k), "text": "@" + strip(items[k])}
