# Corrections to the mechanical reading of the repository's TypedDicts: keys that the code itself treats as optional
# (the builder drops None-valued keys through reject_nones; the compiler tests `"tableHeader" not in examples` and
# `"feature" not in gherkin_document`) although parser_types.py declares them without NotRequired.
from pyvc.dsl import *  # noqa

record_override("Examples", optional=["tableHeader"])
record_override("GherkinDocument", optional=["feature"])
record_override("GherkinDocumentWithURI", optional=["feature"])
