# Sidecar contracts for python/gherkin/token_scanner.py
# The text stream is the ghost class TextIO(lines, pos) of pyvc/registry.py::_io_call (trusted axiom T-io: readline()
# returns the LF-terminated segments of the text in order, then "" for ever; every segment is non-empty).
from pyvc.dsl import *  # noqa

klass("TextIO", fields=dict(lines=ListOf(Str), pos=Int, text=Str), record=False,
      invariant=[clause("segments", lambda self: self.pos >= 0 and self.pos <= len(self.lines) and forall(
          len(self.lines), lambda j: len(self.lines[j]) >= 1))])

klass("TokenScanner", fields=dict(io="TextIO", line_number=Int), record=False,
      invariant=[clause("counter", lambda self: self.line_number >= 0 and self.io.pos == (
          self.line_number if self.line_number <= len(self.io.lines) else len(self.io.lines)))])

contract("gherkin.token.Token.__init__", inline=True, args=dict())

# D5 (known finding, property C01): `path_or_str` -- a source text that names an existing path is opened as a file.
# The clause `source-text` states what the property needs (the scanner reads the given text); it is refuted on the
# unchanged tree exactly for texts with path_exists(text), and is listed in known_findings.json by its name.
contract("gherkin.token_scanner.TokenScanner.__init__",
         args=dict(self=Raw("TokenScanner"), path_or_str=Str), returns=NoneT, modifies=["self.*"],
         standin="documents::",
         ensures=[
             clause("counter", lambda self: self.line_number == 0 and self.io.pos == 0, serves=["C04", "C18"]),
             clause("text-unless-path", lambda self, path_or_str: implies(
                 not ghost("path_exists", path_or_str),
                 self.io.lines == ghost_val("keepends", ListOf(Str), path_or_str)), serves=["C01", "C16", "C18"]),
             clause("file-translated", lambda self, path_or_str: implies(
                 ghost("path_exists", path_or_str),
                 self.io.lines == ghost_val("keepends", ListOf(Str), ghost_val("file_text", Str, path_or_str, False))),
                 serves=["C16"]),
             clause("source-text", lambda self, path_or_str:
                    self.io.lines == ghost_val("keepends", ListOf(Str), path_or_str), serves=["C01"]),
         ])

# read: the k-th call returns the token of physical line k (location.line == k, no column yet) while lines remain,
# and an EOF token (line == "") with the next line number for ever after.
contract("gherkin.token_scanner.TokenScanner.read",
         args=dict(self="TokenScanner"), returns="Token", modifies=["self.line_number", "self.io.pos"],
         standin="documents::",
         ensures=[
             clause("counter", lambda self, result: self.line_number == old(self.line_number) + 1
                    and result.location["line"] == self.line_number and "column" not in result.location,
                    serves=["C04", "C14", "C18"]),
             clause("eof-iff-exhausted", lambda self, result: is_eof_token(result) == (
                 old(self.io.pos) >= len(self.io.lines)), serves=["C18", "C02"]),
             clause("line", lambda self, result: True if typed_is_str(result.line) else (
                 result.line._line_text == self.io.lines[old(self.io.pos)]
                 and result.line._line_number == old(self.io.pos) + 1
                 and result.location["line"] == old(self.io.pos) + 1
                 and self.io.pos == old(self.io.pos) + 1), serves=["C04", "C18", "C16", "C03"]),
             clause("exhausted-stays", lambda self: implies(old(self.io.pos) >= len(self.io.lines),
                                                            self.io.pos == old(self.io.pos)), serves=["C18"]),
             clause("invariant", lambda self: self.line_number >= 0 and self.io.pos == (
                 self.line_number if self.line_number <= len(self.io.lines) else len(self.io.lines)),
                 serves=["C04", "C18"]),
             clause("stream-unchanged", lambda self: self.io.lines == old(self.io.lines), serves=["C18", "C15"]),
         ])
