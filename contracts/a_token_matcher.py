# Sidecar contracts for python/gherkin/token_matcher.py and token.py (Layer A)
from pyvc.dsl import *  # noqa

klass("Dialect", fields=dict(spec="DialectSpec"), record=False)
klass("TokenMatcher",
      fields=dict(_default_dialect_name=Str, dialect_name=Str, dialect="Dialect",
                  keyword_types=MapOf(Str, ListOf(Str)), _indent_to_remove=Int, _active_doc_string_separator=Opt(Str)),
      record=False)
# a line token (token.line is a GherkinLine) and the end-of-file token (token.line == '')
klass("Token",
      fields=dict(line="GherkinLine", location=MutDict("Location"), matched_type=Opt(Str), matched_text=Opt(Str),
                  matched_keyword=Opt(Str), matched_keyword_type=Opt(Str), matched_indent=Int,
                  matched_items=ListOf("gherkin_line.Cell"), matched_gherkin_dialect=Str), record=False)
klass("TokenEOF", of="Token",
      fields=dict(line=Str, location=MutDict("Location"), matched_type=Opt(Str), matched_text=Opt(Str),
                  matched_keyword=Opt(Str), matched_keyword_type=Opt(Str), matched_indent=Int,
                  matched_items=ListOf("gherkin_line.Cell"), matched_gherkin_dialect=Str), record=False,
      invariant=[clause("eof", lambda self: len(self.line) == 0)])

contract("gherkin.token.Token.eof",
         args=dict(self="Token"), variants=[dict(self="Token"), dict(self="TokenEOF")], returns=Bool,
         ensures=[clause("eof", lambda self, result: result == is_eof_token(self), serves=["C18", "C01"])])
contract("gherkin.token.Token.eof@TokenEOF", args=dict(self="TokenEOF"), returns=Bool, abstract=True,
         ensures=[clause("eof", lambda result: result == True)])

contract("gherkin.dialect.Dialect.feature_keywords", inline=True, args=dict())
contract("gherkin.dialect.Dialect.rule_keywords", inline=True, args=dict())
contract("gherkin.dialect.Dialect.scenario_keywords", inline=True, args=dict())
contract("gherkin.dialect.Dialect.scenario_outline_keywords", inline=True, args=dict())
contract("gherkin.dialect.Dialect.background_keywords", inline=True, args=dict())
contract("gherkin.dialect.Dialect.examples_keywords", inline=True, args=dict())
contract("gherkin.dialect.Dialect.given_keywords", inline=True, args=dict())
contract("gherkin.dialect.Dialect.when_keywords", inline=True, args=dict())
contract("gherkin.dialect.Dialect.then_keywords", inline=True, args=dict())
contract("gherkin.dialect.Dialect.and_keywords", inline=True, args=dict())
contract("gherkin.dialect.Dialect.but_keywords", inline=True, args=dict())


def is_eof_token(token):
    return length(token.line) == 0 if typed_is_str(token.line) else False


# _set_token_matched: all seven token fields and the column; text loses trailing CR/LF only.
contract("gherkin.token_matcher.TokenMatcher._set_token_matched",
         args=dict(self="TokenMatcher", token="Token", matched_type=Opt(Str), text=Opt(Str), keyword=Opt(Str),
                   keyword_type=Opt(Str), indent=Opt(Int), items=Opt(ListOf("gherkin_line.Cell"))),
         variants=[dict(token="Token"), dict(token="TokenEOF")],
         returns=NoneT,
         modifies=["token.matched_type", "token.matched_text", "token.matched_keyword", "token.matched_keyword_type",
                   "token.matched_indent", "token.matched_items", "token.matched_gherkin_dialect", "token.location"],
         ensures=[
             clause("type", lambda token, matched_type: token.matched_type == matched_type, serves=["C03", "C18"]),
             clause("text", lambda token, text: token.matched_text == (None if is_none(text) else strip_crlf(opt_val(text))),
                    serves=["C03", "C16", "C13"]),
             clause("keyword", lambda token, keyword, keyword_type: token.matched_keyword == keyword
                    and token.matched_keyword_type == keyword_type, serves=["C03", "C05", "C10"]),
             clause("indent", lambda token, indent: token.matched_indent == (
                 opt_val(indent) if not is_none(indent) else token_indent(token)), serves=["C04"]),
             clause("column", lambda token: token.location["column"] == token.matched_indent + 1
                    and "column" in token.location and token.location["line"] == old(token.location["line"]),
                    serves=["C04", "C14"]),
             clause("items", lambda token, items: token.matched_items == (
                 seq_empty("gherkin_line.Cell") if is_none(items) else opt_val(items)), serves=["C03", "C04", "C12"]),
             clause("dialect", lambda self, token: token.matched_gherkin_dialect == self.dialect_name, serves=["C05"]),
         ])


def token_indent(token):
    return token.line.indent if not typed_is_str(token.line) else 0

TOKEN_FIELDS = ["token.matched_type", "token.matched_text", "token.matched_keyword", "token.matched_keyword_type",
                "token.matched_indent", "token.matched_items", "token.matched_gherkin_dialect", "token.location"]


def untouched(token, old_type, old_loc_has_col):
    return True


# ---- recognisers without state ----------------------------------------------------------------------------------
contract("gherkin.token_matcher.TokenMatcher.match_TableRow",
         args=dict(self="TokenMatcher", token="Token"), returns=Bool,
         modifies=["token.matched_type", "token.matched_text", "token.matched_keyword", "token.matched_keyword_type",
                   "token.matched_indent", "token.matched_items", "token.matched_gherkin_dialect", "token.location"],
         ensures=[
             clause("recognised", lambda token, result: result == startswith(token.line._trimmed_line_text, "|"),
                    serves=["C02", "C03", "C12"]),
             clause("fields", lambda self, token, result: implies(
                 result, token.matched_type == "TableRow" and is_none(token.matched_text) and is_none(token.matched_keyword)
                 and token.matched_items == spec_cells(token.line._trimmed_line_text, token.line.indent)
                 and token.matched_indent == token.line.indent and token.location["column"] == token.line.indent + 1
                 and token.matched_gherkin_dialect == self.dialect_name), serves=["C03", "C04", "C12"]),
             clause("no-match-no-write", lambda token, result: implies(
                 not result, token.matched_type == old(token.matched_type)
                 and token.matched_items == old(token.matched_items)), serves=["C15"]),
         ])

contract("gherkin.token_matcher.TokenMatcher.match_Comment",
         args=dict(self="TokenMatcher", token="Token"), returns=Bool,
         modifies=["token.matched_type", "token.matched_text", "token.matched_keyword", "token.matched_keyword_type",
                   "token.matched_indent", "token.matched_items", "token.matched_gherkin_dialect", "token.location"],
         ensures=[
             clause("recognised", lambda token, result: result == startswith(token.line._trimmed_line_text, "#"),
                    serves=["C02", "C03"]),
             clause("fields", lambda token, result: implies(
                 result, token.matched_type == "Comment"
                 and token.matched_text == strip_crlf(token.line._line_text)        # the whole line, leading blanks kept
                 and token.matched_indent == 0 and token.location["column"] == 1
                 and len(token.matched_items) == 0), serves=["C03", "C04", "C16"]),
         ])

contract("gherkin.token_matcher.TokenMatcher.match_Empty",
         args=dict(self="TokenMatcher", token="Token"), returns=Bool,
         modifies=["token.matched_type", "token.matched_text", "token.matched_keyword", "token.matched_keyword_type",
                   "token.matched_indent", "token.matched_items", "token.matched_gherkin_dialect", "token.location"],
         ensures=[
             clause("recognised", lambda token, result: result == (len(token.line._trimmed_line_text) == 0),
                    serves=["C02", "C03", "C16"]),
             clause("fields", lambda token, result: implies(
                 result, token.matched_type == "Empty" and is_none(token.matched_text)
                 and token.matched_indent == 0 and token.location["column"] == 1), serves=["C03", "C04"]),
         ])

contract("gherkin.token_matcher.TokenMatcher.match_EOF",
         args=dict(self="TokenMatcher", token="Token"), variants=[dict(token="Token"), dict(token="TokenEOF")],
         returns=Bool,
         modifies=["token.matched_type", "token.matched_text", "token.matched_keyword", "token.matched_keyword_type",
                   "token.matched_indent", "token.matched_items", "token.matched_gherkin_dialect", "token.location"],
         ensures=[
             clause("recognised", lambda token, result: result == is_eof_token(token), serves=["C02", "C18"]),
             clause("fields", lambda token, result: implies(
                 result, token.matched_type == "EOF" and token.matched_indent == 0 and token.location["column"] == 1),
                 serves=["C03", "C04"]),
         ])

contract("gherkin.token_matcher.TokenMatcher.match_TagLine",
         args=dict(self="TokenMatcher", token="Token"), returns=Bool,
         modifies=["token.matched_type", "token.matched_text", "token.matched_keyword", "token.matched_keyword_type",
                   "token.matched_indent", "token.matched_items", "token.matched_gherkin_dialect", "token.location"],
         ensures=[
             clause("recognised", lambda token, result: result == startswith(token.line._trimmed_line_text, "@"),
                    serves=["C02", "C03"]),
             clause("fields", lambda token, result: implies(
                 result, token.matched_type == "TagLine" and token.matched_indent == token.line.indent
                 and token.location["column"] == token.line.indent + 1
                 and len(token.matched_items) == len(tag_items(token.line._trimmed_line_text)) - 1
                 and forall(len(token.matched_items), lambda k: token.matched_items[k] == tag_cell(
                     tag_items(token.line._trimmed_line_text), k + 1, token.line.indent))), serves=["C03", "C04"]),
         ],
         raises=[raises("ParserException",
                        only_if=lambda token: startswith(token.line._trimmed_line_text, "@"),
                        ensures=[clause("line", lambda token, exc: exc.location["line"] == token.line._line_number,
                                        serves=["C14", "C04"]),
                                 clause("no-write", lambda token: token.matched_type == old(token.matched_type), serves=["C15"])],
                        serves=["C14"])])

# ---- doc strings: a two-state machine on (_active_doc_string_separator, _indent_to_remove) -----------------------
contract("gherkin.token_matcher.TokenMatcher._default_docstring_content_type", inline=True, args=dict())

contract("gherkin.token_matcher.TokenMatcher._match_DocStringSeparator",
         args=dict(self="TokenMatcher", token="Token", separator=Str, is_open=Bool), returns=Bool,
         modifies=["token.matched_type", "token.matched_text", "token.matched_keyword", "token.matched_keyword_type",
                   "token.matched_indent", "token.matched_items", "token.matched_gherkin_dialect", "token.location",
                   "self._active_doc_string_separator", "self._indent_to_remove"],
         ensures=[
             clause("recognised", lambda token, separator, result: result == startswith(token.line._trimmed_line_text, separator),
                    serves=["C13", "C02"]),
             clause("open", lambda self, token, separator, is_open, result: implies(
                 result and is_open, self._active_doc_string_separator == separator
                 and self._indent_to_remove == token.line.indent
                 and token.matched_text == strip_crlf(strip(token.line._trimmed_line_text[len(separator):]))),
                 serves=["C13"]),
             clause("close", lambda self, token, is_open, result: implies(
                 result and not is_open, is_none(self._active_doc_string_separator) and self._indent_to_remove == 0
                 and is_none(token.matched_text)), serves=["C13", "C15", "C16"]),
             clause("fields", lambda token, separator, result: implies(
                 result, token.matched_type == "DocStringSeparator" and token.matched_keyword == separator
                 and token.matched_indent == token.line.indent and token.location["column"] == token.line.indent + 1),
                 serves=["C13", "C04"]),
             clause("no-match-no-change", lambda self, result: implies(
                 not result, self._active_doc_string_separator == old(self._active_doc_string_separator)
                 and self._indent_to_remove == old(self._indent_to_remove)), serves=["C13", "C15"]),
         ])

contract("gherkin.token_matcher.TokenMatcher.match_DocStringSeparator",
         args=dict(self="TokenMatcher", token="Token"), returns=Bool,
         modifies=["token.matched_type", "token.matched_text", "token.matched_keyword", "token.matched_keyword_type",
                   "token.matched_indent", "token.matched_items", "token.matched_gherkin_dialect", "token.location",
                   "self._active_doc_string_separator", "self._indent_to_remove"],
         ensures=[
             # closed: a line opens a doc string iff it starts with one of the two delimiters
             clause("opens", lambda self, token, result: implies(
                 not doc_open(old(self._active_doc_string_separator)),
                 result == (startswith(token.line._trimmed_line_text, '"""') or startswith(token.line._trimmed_line_text, "```"))
                 and implies(result, self._indent_to_remove == token.line.indent and self._active_doc_string_separator == (
                     '"""' if startswith(token.line._trimmed_line_text, '"""') else "```"))), serves=["C13"]),
             # open: only a line starting with the active delimiter closes it (the other delimiter is content)
             clause("closes", lambda self, token, result: implies(
                 doc_open(old(self._active_doc_string_separator)),
                 result == startswith(token.line._trimmed_line_text, opt_val(old(self._active_doc_string_separator)))
                 and implies(result, is_none(self._active_doc_string_separator) and self._indent_to_remove == 0)),
                 serves=["C13"]),
             clause("no-match-no-change", lambda self, result: implies(
                 not result, self._active_doc_string_separator == old(self._active_doc_string_separator)
                 and self._indent_to_remove == old(self._indent_to_remove)), serves=["C13", "C15"]),
             clause("fields", lambda token, result: implies(
                 result, token.matched_type == "DocStringSeparator" and token.location["column"] == token.line.indent + 1),
                 serves=["C13", "C04"]),
         ])


def doc_open(sep):
    # `not self._active_doc_string_separator`: None and '' both count as closed
    return (not is_none(sep)) and len(opt_val(sep)) > 0


contract("gherkin.token_matcher.TokenMatcher._unescaped_docstring",
         args=dict(self="TokenMatcher", text=Str), returns=Str,
         result_is=lambda self, text: unescaped(self._active_doc_string_separator, text), serves=["C13"])


def unescaped(sep, text):
    return (replace_all(text, '\\"\\"\\"', '"""') if sep == '"""'
            else (replace_all(text, "\\`\\`\\`", "```") if sep == "```" else text))


contract("gherkin.token_matcher.TokenMatcher.match_Other",
         args=dict(self="TokenMatcher", token="Token"), returns=Bool,
         modifies=["token.matched_type", "token.matched_text", "token.matched_keyword", "token.matched_keyword_type",
                   "token.matched_indent", "token.matched_items", "token.matched_gherkin_dialect", "token.location"],
         ensures=[
             clause("always", lambda result: result == True, serves=["C02", "C13"]),
             clause("text", lambda self, token: token.matched_text == strip_crlf(unescaped(
                 self._active_doc_string_separator,
                 (token.line._trimmed_line_text if (self._indent_to_remove < 0 or self._indent_to_remove > token.line.indent)
                  else token.line._line_text[self._indent_to_remove:]))), serves=["C13", "C03", "C16"]),
             clause("fields", lambda token: token.matched_type == "Other" and token.matched_indent == 0
                    and token.location["column"] == 1, serves=["C03", "C04", "C13"]),
         ])


# ---- keyword lines ------------------------------------------------------------------------------------------------
def title_match(trimmed, kw):
    return startswith(trimmed, kw + ":")


def first_listed(keywords, kw, trimmed):
    # kw is the first keyword of the list (in list order) that is followed by ':' at the start of the line
    return exists(len(keywords), lambda p: keywords[p] == kw and title_match(trimmed, keywords[p])
                  and forall(p, lambda m: not title_match(trimmed, keywords[m])))


contract("gherkin.token_matcher.TokenMatcher._match_title_line",
         args=dict(self="TokenMatcher", token="Token", token_type=Str, keywords=ListOf(Str)), returns=Bool,
         modifies=["token.matched_type", "token.matched_text", "token.matched_keyword", "token.matched_keyword_type",
                   "token.matched_indent", "token.matched_items", "token.matched_gherkin_dialect", "token.location"],
         ensures=[
             clause("none", lambda token, keywords, result: implies(
                 not result, forall(len(keywords), lambda j: not title_match(token.line._trimmed_line_text, keywords[j]))
                 and token.matched_type == old(token.matched_type)), serves=["C05", "C02", "C15"]),
             clause("first", lambda token, keywords, result: implies(
                 result, not is_none(token.matched_keyword)
                 and first_listed(keywords, opt_val(token.matched_keyword), token.line._trimmed_line_text)),
                 serves=["C05", "C03"]),
             clause("fields", lambda self, token, token_type, result: implies(
                 result, token.matched_type == token_type
                 and token.matched_text == strip_crlf(strip(token.line._trimmed_line_text[len(opt_val(token.matched_keyword)) + 1:]))
                 and is_none(token.matched_keyword_type)
                 and token.matched_indent == token.line.indent and token.location["column"] == token.line.indent + 1
                 and token.matched_gherkin_dialect == self.dialect_name), serves=["C03", "C04", "C05", "C16"]),
         ],
         loops={0: loop(invariant=[
             clause("none-so-far", lambda token, keywords, _i: forall(_i, lambda j: not title_match(
                 token.line._trimmed_line_text, keywords[j])), serves=["C05", "C02", "C03"]),
             clause("untouched", lambda token: token.matched_type == old(token.matched_type), serves=["C15"]),
         ])})

contract_family(
    names=["FeatureLine:feature", "RuleLine:rule", "BackgroundLine:background", "ExamplesLine:examples"],
    template=contract("gherkin.token_matcher.TokenMatcher.match_$X",
                      args=dict(self="TokenMatcher", token="Token"), returns=Bool,
                      modifies=["token.matched_type", "token.matched_text", "token.matched_keyword",
                                "token.matched_keyword_type", "token.matched_indent", "token.matched_items",
                                "token.matched_gherkin_dialect", "token.location"],
                      ensures=[
                          clause("none", lambda self, token, result: implies(not result, forall(
                              len(self.dialect.spec["$K"]), lambda j: not title_match(
                                  token.line._trimmed_line_text, self.dialect.spec["$K"][j]))), serves=["C05", "C02"]),
                          clause("first", lambda self, token, result: implies(
                              result, token.matched_type == "$X" and not is_none(token.matched_keyword) and first_listed(
                                  self.dialect.spec["$K"], opt_val(token.matched_keyword), token.line._trimmed_line_text)
                              and token.matched_text == strip_crlf(strip(
                                  token.line._trimmed_line_text[len(opt_val(token.matched_keyword)) + 1:]))
                              and token.location["column"] == token.line.indent + 1
                              and token.matched_gherkin_dialect == self.dialect_name), serves=["C05", "C03", "C04"]),
                      ]))

contract("gherkin.token_matcher.TokenMatcher.match_ScenarioLine",
         args=dict(self="TokenMatcher", token="Token"), returns=Bool,
         modifies=["token.matched_type", "token.matched_text", "token.matched_keyword", "token.matched_keyword_type",
                   "token.matched_indent", "token.matched_items", "token.matched_gherkin_dialect", "token.location"],
         ensures=[
             clause("none", lambda self, token, result: implies(
                 not result,
                 forall(len(self.dialect.spec["scenario"]), lambda j: not title_match(
                     token.line._trimmed_line_text, self.dialect.spec["scenario"][j]))
                 and forall(len(self.dialect.spec["scenarioOutline"]), lambda j: not title_match(
                     token.line._trimmed_line_text, self.dialect.spec["scenarioOutline"][j]))), serves=["C05", "C02"]),
             # the scenario keywords are tried before the scenario-outline keywords
             clause("first", lambda self, token, result: implies(
                 result, token.matched_type == "ScenarioLine" and not is_none(token.matched_keyword) and (
                     first_listed(self.dialect.spec["scenario"], opt_val(token.matched_keyword), token.line._trimmed_line_text)
                     or (forall(len(self.dialect.spec["scenario"]), lambda j: not title_match(
                         token.line._trimmed_line_text, self.dialect.spec["scenario"][j]))
                         and first_listed(self.dialect.spec["scenarioOutline"], opt_val(token.matched_keyword),
                                          token.line._trimmed_line_text)))
                 and token.matched_text == strip_crlf(strip(
                     token.line._trimmed_line_text[len(opt_val(token.matched_keyword)) + 1:]))
                 and token.location["column"] == token.line.indent + 1), serves=["C05", "C03", "C04"]),
         ])


def step_keywords(spec):
    return spec["given"] + spec["when"] + spec["then"] + spec["and"] + spec["but"]


def first_step_kw(keywords, kw, trimmed):
    return exists(len(keywords), lambda p: keywords[p] == kw and startswith(trimmed, keywords[p])
                  and forall(p, lambda m: not startswith(trimmed, keywords[m])))


contract("gherkin.token_matcher.TokenMatcher.match_StepLine",
         args=dict(self="TokenMatcher", token="Token"), returns=Bool,
         modifies=["token.matched_type", "token.matched_text", "token.matched_keyword", "token.matched_keyword_type",
                   "token.matched_indent", "token.matched_items", "token.matched_gherkin_dialect", "token.location"],
         ensures=[
             clause("none", lambda self, token, result: implies(not result, forall(
                 len(step_keywords(self.dialect.spec)), lambda j: not startswith(
                     token.line._trimmed_line_text, step_keywords(self.dialect.spec)[j]))), serves=["C05", "C02"]),
             # the first listed step keyword (given, when, then, and, but order) that prefixes the line
             clause("first", lambda self, token, result: implies(
                 result, token.matched_type == "StepLine" and not is_none(token.matched_keyword) and first_step_kw(
                     step_keywords(self.dialect.spec), opt_val(token.matched_keyword), token.line._trimmed_line_text)
                 and token.matched_text == strip_crlf(strip(token.line._trimmed_line_text[len(opt_val(token.matched_keyword)):]))
                 and token.location["column"] == token.line.indent + 1), serves=["C05", "C03", "C04"]),
             # keyword type: the single category of the keyword, Unknown when it is listed more than once
             clause("type", lambda self, token, result: implies(
                 result, token.matched_keyword_type == (
                     self.keyword_types[opt_val(token.matched_keyword)][0]
                     if len(self.keyword_types[opt_val(token.matched_keyword)]) == 1 else "Unknown")),
                 serves=["C05", "C10"]),
         ],
         loops={0: loop(invariant=[
             clause("none-so-far", lambda token, _seq, _i: forall(_i, lambda j: not startswith(
                 token.line._trimmed_line_text, _seq[j])), serves=["C05", "C02", "C03", "C10"]),
             clause("keywords", lambda self, _seq: _seq == step_keywords(self.dialect.spec), serves=["C05", "C03", "C10", "C02"]),
         ])})


# ---- dialect switching ----------------------------------------------------------------------------------------------
LANGUAGE_PATTERN = r"^\s*#\s*language\s*:\s*([a-zA-Z\-_]+)\s*$"

# _change_dialect: the loops over the dialect's keyword lists build a map keyed by arbitrary keyword strings; the
# map-update invariant quantifies over all strings, which the instantiation scheme of PyVC does not cover.  The
# function is decided by complete enumeration over the 80 shipped dialects (pyvc/enum_matcher.py, F) and by a
# bounded stand-in over call sequences; callers use this contract.
contract("gherkin.token_matcher.TokenMatcher._change_dialect",
         args=dict(self="TokenMatcher", dialect_name=Str, location=Opt(MutDict("Location"))),
         variants=[dict(location=MutDict("Location")), dict(location=NoneT)],
         returns=NoneT,
         bounded_only="map-update invariant over all keyword strings is out of PyVC's reach; enumerated over the 80 dialects instead",
         standin="dialects::keyword-types",
         modifies=["self.dialect_name", "self.dialect", "self.keyword_types"],
         ensures=[clause("switched", lambda self, dialect_name: self.dialect_name == dialect_name
                         and ghost("known_dialect", dialect_name), serves=["C05", "C15"])],
         raises=[raises("NoSuchLanguageException", when=lambda dialect_name: not ghost("known_dialect", dialect_name),
                        ensures=[clause("unchanged", lambda self: self.dialect_name == old(self.dialect_name), serves=["C05"])],
                        serves=["C05", "C14"])])

contract("gherkin.token_matcher.TokenMatcher.reset",
         args=dict(self="TokenMatcher"),
         requires=[clause("default-known", lambda self: ghost("known_dialect", self._default_dialect_name))],
         returns=NoneT,
         modifies=["self.dialect_name", "self.dialect", "self.keyword_types", "self._indent_to_remove",
                   "self._active_doc_string_separator"],
         ensures=[clause("fresh", lambda self: self._indent_to_remove == 0 and is_none(self._active_doc_string_separator)
                         and self.dialect_name == self._default_dialect_name, serves=["C15", "C05", "C13"])])

contract("gherkin.token_matcher.TokenMatcher.match_Language",
         args=dict(self="TokenMatcher", token="Token"), returns=Bool,
         modifies=["token.matched_type", "token.matched_text", "token.matched_keyword", "token.matched_keyword_type",
                   "token.matched_indent", "token.matched_items", "token.matched_gherkin_dialect", "token.location",
                   "self.dialect_name", "self.dialect", "self.keyword_types"],
         ensures=[
             clause("recognised", lambda token, result: result == re_matches(LANGUAGE_PATTERN, token.line._trimmed_line_text),
                    serves=["C05", "C02"]),
             clause("switched", lambda self, token, result: implies(
                 result, self.dialect_name == re_group1(LANGUAGE_PATTERN, token.line._trimmed_line_text)
                 and token.matched_type == "Language"
                 and token.matched_text == strip_crlf(re_group1(LANGUAGE_PATTERN, token.line._trimmed_line_text))
                 and token.location["column"] == token.line.indent + 1), serves=["C05", "C03", "C04"]),
             clause("no-match-no-change", lambda self, result: implies(not result, self.dialect_name == old(self.dialect_name)),
                    serves=["C05", "C15"]),
         ],
         raises=[raises("NoSuchLanguageException",
                        when=lambda token: re_matches(LANGUAGE_PATTERN, token.line._trimmed_line_text) and not ghost(
                            "known_dialect", re_group1(LANGUAGE_PATTERN, token.line._trimmed_line_text)),
                        ensures=[clause("located", lambda token: "column" in token.location
                                        and token.location["column"] == token.line.indent + 1, serves=["C14", "C04"]),
                                 clause("unchanged", lambda self: self.dialect_name == old(self.dialect_name), serves=["C05"])],
                        serves=["C14", "C05"])])
