# Sidecar contracts for python/gherkin/ast_builder.py and ast_node.py (Layer C)
from pyvc.dsl import *  # noqa

# a matched token as the builder sees it (immutable view: consumed tokens are never matched again)
klass("TokenB", of="Token",
      fields=dict(line=Val("GherkinLine"), location="Location", matched_type=Str, matched_text=Opt(Str),
                  matched_keyword=Opt(Str), matched_keyword_type=Opt(Str), matched_indent=Int,
                  matched_items=ListOf("gherkin_line.Cell"), matched_gherkin_dialect=Str))
klass("IdGeneratorB", of="IdGenerator", fields=dict(_id_counter=Int), record=False)
klass("AstBuilder", fields=dict(id_generator="IdGenerator", comments=MutList("ast_builder.Comment"), id_counter=Int),
      record=False)

contract("gherkin.ast_builder.AstBuilder.get_location",
         args=dict(token=Val("TokenB"), column=Opt(Int)), returns="Location",
         result_is=lambda token, column: (token.location if (is_none(column) or opt_val(column) == 0)
                                          else {"line": token.location["line"], "column": opt_val(column)}),
         serves=["C04"])

contract("gherkin.ast_builder.AstBuilder.reject_nones", inline=True, args=dict())

# get_cells: one cell per matched item: value = item text, column = item column, line = the row's line
contract("gherkin.ast_builder.AstBuilder.get_cells",
         args=dict(self="AstBuilder", table_row_token=Val("TokenB")), returns=ListOf("parser_types.Cell"),
         result_is=lambda table_row_token: [row_cell(table_row_token, it) for it in table_row_token.matched_items],
         serves=["C03", "C04", "C12"])


def row_cell(token, item):
    return {"location": ({"line": token.location["line"], "column": item["column"]} if item["column"] != 0 else token.location),
            "value": item["text"]}


# ensure_cell_count: a table whose rows differ in cell count is rejected at the FIRST deviating row
contract("gherkin.ast_builder.AstBuilder.ensure_cell_count",
         args=dict(rows=ListOf("TableRow")), returns=NoneT,
         ensures=[clause("rectangular", lambda rows: forall(len(rows), lambda j: len(rows[j]["cells"]) == len(rows[0]["cells"])),
                         serves=["C12", "C01"])],
         raises=[raises("AstBuilderException",
                        when=lambda rows: exists(len(rows), lambda j: len(rows[j]["cells"]) != len(rows[0]["cells"])),
                        ensures=[clause("first-deviating", lambda rows, exc: exists(len(rows), lambda j:
                                        exc.location == rows[j]["location"] and len(rows[j]["cells"]) != len(rows[0]["cells"])
                                        and forall(j, lambda m: len(rows[m]["cells"]) == len(rows[0]["cells"]))),
                                        serves=["C12", "C14"]),
                                 clause("message", lambda exc: str(exc) == error_message(
                                     exc.location["line"], (exc.location["column"] if "column" in exc.location else 0),
                                     "inconsistent cell count within the table"), serves=["C14"])],
                        serves=["C12", "C14"])],
         loops={0: loop(invariant=[clause("so-far", lambda rows, _i, cell_count: cell_count == len(rows[0]["cells"]) and forall(
             _i, lambda j: len(rows[j]["cells"]) == len(rows[0]["cells"])), serves=["C12", "C14", "C01"])])})

record("SubTags", fields=dict(TagLine=ListOf(Val("TokenB"))))
klass("NodeTags", of="AstNode", fields=dict(rule_type=Str, _sub_items="SubTags"))
record("SubHasTags", fields=dict(Tags=ListOf(Val("NodeTags"))))
klass("NodeHasTags", of="AstNode", fields=dict(rule_type=Str, _sub_items="SubHasTags"))

# get_tags: the tags of all tag lines of the (optional) Tags child, in source order; ids in that order
contract("gherkin.ast_builder.AstBuilder.get_tags",
         args=dict(self="AstBuilder", node=Val("NodeHasTags")), returns=ListOf("Tag"),
         modifies=["self.id_generator._id_counter"],
         ensures=[
             clause("no-tags", lambda self, node, result: implies(
                 len(node._sub_items["Tags"]) == 0,
                 len(result) == 0 and self.id_generator._id_counter == old(self.id_generator._id_counter)),
                 serves=["C03", "C08", "C11"]),
             clause("tags", lambda self, node, result: implies(
                 len(node._sub_items["Tags"]) > 0,
                 result == tags_flat(node._sub_items["Tags"][0]._sub_items["TagLine"],
                                     len(node._sub_items["Tags"][0]._sub_items["TagLine"]),
                                     old(self.id_generator._id_counter))[0]
                 and self.id_generator._id_counter == old(self.id_generator._id_counter) + tags_flat(
                     node._sub_items["Tags"][0]._sub_items["TagLine"],
                     len(node._sub_items["Tags"][0]._sub_items["TagLine"]), old(self.id_generator._id_counter))[1]),
                 serves=["C03", "C04", "C08", "C11"]),
         ],
         loops={0: loop(invariant=[
             clause("acc", lambda self, tags, _i, _seq: tags == tags_flat(_seq, _i, old(self.id_generator._id_counter))[0]
                    and self.id_generator._id_counter == old(self.id_generator._id_counter) + tags_flat(
                        _seq, _i, old(self.id_generator._id_counter))[1], serves=["C03", "C04", "C08", "C11"]),
         ], types=dict(tags=MutList("Tag")), modifies=["self.id_generator"])})

record("SubRows", fields=dict(TableRow=ListOf(Val("TokenB"))))
klass("NodeRows", of="AstNode", fields=dict(rule_type=Str, _sub_items="SubRows"))

# get_table_rows: one row per TableRow token in order, ids in that order; ragged tables rejected (ensure_cell_count)
contract("gherkin.ast_builder.AstBuilder.get_table_rows",
         args=dict(self="AstBuilder", node=Val("NodeRows")), returns=ListOf("TableRow"),
         modifies=["self.id_generator._id_counter"],
         ensures=[
             clause("rows", lambda self, node, result: len(result) == len(node._sub_items["TableRow"]) and forall(
                 len(result), lambda j: result[j] == table_row_of(node._sub_items["TableRow"][j],
                                                                  itos(old(self.id_generator._id_counter) + j))),
                 serves=["C03", "C04", "C11", "C12"]),
             clause("ids", lambda self, node: self.id_generator._id_counter == old(self.id_generator._id_counter) + len(
                 node._sub_items["TableRow"]), serves=["C11"]),
             clause("rectangular", lambda result: forall(len(result), lambda j: len(result[j]["cells"]) == len(result[0]["cells"])),
                    serves=["C12", "C01"]),
         ],
         raises=[raises("AstBuilderException",
                        when=lambda node: exists(len(node._sub_items["TableRow"]), lambda j:
                                                 len(node._sub_items["TableRow"][j].matched_items)
                                                 != len(node._sub_items["TableRow"][0].matched_items)),
                        serves=["C12", "C14"])])

# ---- transform_node, one contract per rule type (the node views carry the multiplicities of the grammar) -------------
record("SubStep", fields=dict(StepLine=ListOf(Val("TokenB")), DataTable=ListOf("DataTable"), DocString=ListOf("DocString")))
klass("NodeStep", of="AstNode", fields=dict(rule_type=Str, _sub_items="SubStep"))

contract("gherkin.ast_builder.AstBuilder.transform_node#Step",
         args=dict(self="AstBuilder", node=Val("NodeStep")),
         requires=[clause("kind", lambda node: node.rule_type == "Step"),
                   clause("one-step-line", lambda node: len(node._sub_items["StepLine"]) == 1
                          and not is_none(node._sub_items["StepLine"][0].matched_keyword)
                          and not is_none(node._sub_items["StepLine"][0].matched_keyword_type)
                          and not is_none(node._sub_items["StepLine"][0].matched_text))],
         returns="Step",
         modifies=["self.id_generator._id_counter"],
         result_is=lambda self, node: spec_step(node._sub_items["StepLine"][0], node._sub_items["DataTable"],
                                                node._sub_items["DocString"], self.id_generator._id_counter),
         ensures=[clause("one-id", lambda self: self.id_generator._id_counter == old(self.id_generator._id_counter) + 1,
                         serves=["C11"])],
         serves=["C03", "C04", "C11", "C17"])

record("SubDocString", fields=dict(DocStringSeparator=ListOf(Val("TokenB")), Other=ListOf(Val("TokenB"))))
klass("NodeDocString", of="AstNode", fields=dict(rule_type=Str, _sub_items="SubDocString"))

contract("gherkin.ast_builder.AstBuilder.transform_node#DocString",
         args=dict(self="AstBuilder", node=Val("NodeDocString")),
         requires=[clause("kind", lambda node: node.rule_type == "DocString"),
                   # a DocString node always holds its opening separator (it is created by it), whose text is never None
                   clause("opened", lambda node: len(node._sub_items["DocStringSeparator"]) >= 1
                          and not is_none(node._sub_items["DocStringSeparator"][0].matched_text)
                          and not is_none(node._sub_items["DocStringSeparator"][0].matched_keyword)),
                   clause("lines", lambda node: forall(len(node._sub_items["Other"]), lambda j:
                                                       not is_none(node._sub_items["Other"][j].matched_text)))],
         returns="DocString",
         result_is=lambda node: ast_docstring(node._sub_items["DocStringSeparator"][0], node._sub_items["Other"]),
         serves=["C13", "C03", "C04", "C17", "C01"])

contract("gherkin.ast_builder.AstBuilder.transform_node#DataTable",
         args=dict(self="AstBuilder", node=Val("NodeRows")),
         requires=[clause("kind", lambda node: node.rule_type == "DataTable"),
                   clause("rows", lambda node: len(node._sub_items["TableRow"]) >= 1)],
         returns="DataTable",
         modifies=["self.id_generator._id_counter"],
         ensures=[
             clause("rows", lambda self, node, result: len(result["rows"]) == len(node._sub_items["TableRow"]) and forall(
                 len(result["rows"]), lambda j: result["rows"][j] == table_row_of(
                     node._sub_items["TableRow"][j], itos(old(self.id_generator._id_counter) + j))),
                 serves=["C03", "C04", "C11", "C12"]),
             clause("location", lambda node, result: result["location"] == node._sub_items["TableRow"][0].location,
                    serves=["C04"]),
             clause("rectangular", lambda result: forall(len(result["rows"]), lambda j:
                                                          len(result["rows"][j]["cells"]) == len(result["rows"][0]["cells"])),
                    serves=["C12"]),
         ],
         raises=[raises("AstBuilderException", serves=["C12", "C14"])])

record("SubDescription", fields=dict(Other=ListOf(Val("TokenB"))))
klass("NodeDescription", of="AstNode", fields=dict(rule_type=Str, _sub_items="SubDescription"))

# Description: the free-text lines joined by line feeds, trailing whitespace-only lines dropped (comments are not in
# the node: build() routes them to the document's comment list)
contract("gherkin.ast_builder.AstBuilder.transform_node#Description",
         args=dict(self="AstBuilder", node=Val("NodeDescription")),
         requires=[clause("kind", lambda node: node.rule_type == "Description"),
                   clause("lines", lambda node: forall(len(node._sub_items["Other"]), lambda j:
                                                       not is_none(node._sub_items["Other"][j].matched_text)))],
         returns=Str,
         ensures=[
             clause("kept-prefix", lambda node, result: exists(len(node._sub_items["Other"]) + 1, lambda k:
                    result == join_lf_opt([t.matched_text for t in node._sub_items["Other"][:k]])
                    and (k == 0 or not node._sub_items["Other"][k - 1].line.is_empty())
                    and forall(len(node._sub_items["Other"]), lambda j: implies(j >= k, node._sub_items["Other"][j].line.is_empty()))),
                    serves=["C03"]),
         ],
         loops={0: loop(invariant=[
             clause("suffix-blank", lambda node, tokens: len(tokens) <= len(node._sub_items["Other"])
                    and tokens == node._sub_items["Other"][:len(tokens)]
                    and forall(len(node._sub_items["Other"]), lambda j: implies(
                        j >= len(tokens), node._sub_items["Other"][j].line.is_empty())), serves=["C03"]),
         ], variant=lambda tokens: len(tokens), types=dict(tokens=MutList(Val("TokenB"))))})

contract("gherkin.ast_builder.AstBuilder.transform_node#ExamplesTable",
         args=dict(self="AstBuilder", node=Val("NodeRows")),
         requires=[clause("kind", lambda node: node.rule_type == "ExamplesTable")],
         returns=ListOf("TableRow"),
         modifies=["self.id_generator._id_counter"],
         ensures=[clause("rows", lambda self, node, result: len(result) == len(node._sub_items["TableRow"]) and forall(
             len(result), lambda j: result[j] == table_row_of(node._sub_items["TableRow"][j],
                                                              itos(old(self.id_generator._id_counter) + j))),
             serves=["C03", "C04", "C11", "C12"]),
             clause("rectangular", lambda result: forall(len(result), lambda j: len(result[j]["cells"]) == len(result[0]["cells"])),
                    serves=["C12"])],
         raises=[raises("AstBuilderException", serves=["C12", "C14"])])

contract("gherkin.ast_builder.AstBuilder.get_description", inline=True, args=dict())
contract("gherkin.ast_builder.AstBuilder.get_steps", inline=True, args=dict())

record("SubBackground", fields=dict(BackgroundLine=ListOf(Val("TokenB")), Description=ListOf(Str), Step=ListOf("Step")))
klass("NodeBackground", of="AstNode", fields=dict(rule_type=Str, _sub_items="SubBackground"))


def title_token_ok(t):
    return not is_none(t.matched_keyword) and not is_none(t.matched_text)


contract("gherkin.ast_builder.AstBuilder.transform_node#Background",
         args=dict(self="AstBuilder", node=Val("NodeBackground")),
         requires=[clause("kind", lambda node: node.rule_type == "Background"),
                   clause("line", lambda node: len(node._sub_items["BackgroundLine"]) == 1
                          and title_token_ok(node._sub_items["BackgroundLine"][0]))],
         returns="Background",
         modifies=["self.id_generator._id_counter"],
         result_is=lambda self, node: spec_background(node._sub_items["BackgroundLine"][0], node._sub_items["Description"],
                                                      node._sub_items["Step"], self.id_generator._id_counter),
         ensures=[clause("one-id", lambda self: self.id_generator._id_counter == old(self.id_generator._id_counter) + 1,
                         serves=["C11"])],
         serves=["C03", "C04", "C11", "C17"])

record("SubScenario", fields=dict(ScenarioLine=ListOf(Val("TokenB")), Description=ListOf(Str), Step=ListOf("Step"),
                                  ExamplesDefinition=ListOf("Examples")))
klass("NodeScenario", of="AstNode", fields=dict(rule_type=Str, _sub_items="SubScenario"))
record("SubScenarioDefinition", fields=dict(Tags=ListOf(Val("NodeTags")), Scenario=ListOf(Val("NodeScenario"))))
klass("NodeScenarioDefinition", of="AstNode", fields=dict(rule_type=Str, _sub_items="SubScenarioDefinition"))

contract("gherkin.ast_builder.AstBuilder.transform_node#ScenarioDefinition",
         args=dict(self="AstBuilder", node=Val("NodeScenarioDefinition")),
         requires=[clause("kind", lambda node: node.rule_type == "ScenarioDefinition"),
                   clause("scenario", lambda node: len(node._sub_items["Scenario"]) == 1
                          and len(node._sub_items["Scenario"][0]._sub_items["ScenarioLine"]) == 1
                          and title_token_ok(node._sub_items["Scenario"][0]._sub_items["ScenarioLine"][0]))],
         returns="Scenario",
         modifies=["self.id_generator._id_counter"],
         result_is=lambda self, node: spec_scenario(node._sub_items["Tags"], node._sub_items["Scenario"][0],
                                                    self.id_generator._id_counter),
         ensures=[clause("ids", lambda self, node: self.id_generator._id_counter == old(self.id_generator._id_counter)
                         + tags_of(node._sub_items["Tags"], old(self.id_generator._id_counter))[1] + 1, serves=["C11"])],
         serves=["C03", "C04", "C08", "C11", "C17"])

record("SubExamples", fields=dict(ExamplesLine=ListOf(Val("TokenB")), Description=ListOf(Str),
                                  ExamplesTable=ListOf(ListOf("TableRow"))))
klass("NodeExamples", of="AstNode", fields=dict(rule_type=Str, _sub_items="SubExamples"))
record("SubExamplesDefinition", fields=dict(Tags=ListOf(Val("NodeTags")), Examples=ListOf(Val("NodeExamples"))))
klass("NodeExamplesDefinition", of="AstNode", fields=dict(rule_type=Str, _sub_items="SubExamplesDefinition"))

contract("gherkin.ast_builder.AstBuilder.transform_node#ExamplesDefinition",
         args=dict(self="AstBuilder", node=Val("NodeExamplesDefinition")),
         requires=[clause("kind", lambda node: node.rule_type == "ExamplesDefinition"),
                   clause("examples", lambda node: len(node._sub_items["Examples"]) == 1
                          and len(node._sub_items["Examples"][0]._sub_items["ExamplesLine"]) == 1
                          and title_token_ok(node._sub_items["Examples"][0]._sub_items["ExamplesLine"][0]))],
         returns="Examples",
         modifies=["self.id_generator._id_counter"],
         result_is=lambda self, node: spec_examples(node._sub_items["Tags"], node._sub_items["Examples"][0],
                                                    self.id_generator._id_counter),
         ensures=[clause("ids", lambda self, node: self.id_generator._id_counter == old(self.id_generator._id_counter)
                         + tags_of(node._sub_items["Tags"], old(self.id_generator._id_counter))[1] + 1, serves=["C11"])],
         serves=["C03", "C04", "C08", "C11", "C12", "C17"])

record("SubHeader", fields=dict(Tags=ListOf(Val("NodeTags")), RuleLine=ListOf(Val("TokenB")),
                                FeatureLine=ListOf(Val("TokenB")), Description=ListOf(Str)))
klass("NodeHeader", of="AstNode", fields=dict(rule_type=Str, _sub_items="SubHeader"))
record("SubRule", fields=dict(RuleHeader=ListOf(Val("NodeHeader")), Background=ListOf("Background"),
                              ScenarioDefinition=ListOf("Scenario")))
klass("NodeRule", of="AstNode", fields=dict(rule_type=Str, _sub_items="SubRule"))

contract("gherkin.ast_builder.AstBuilder.transform_node#Rule",
         dict_hint="RuleChild",
         args=dict(self="AstBuilder", node=Val("NodeRule")),
         requires=[clause("kind", lambda node: node.rule_type == "Rule"),
                   clause("header", lambda node: len(node._sub_items["RuleHeader"]) == 1
                          and len(node._sub_items["RuleHeader"][0]._sub_items["RuleLine"]) == 1
                          and title_token_ok(node._sub_items["RuleHeader"][0]._sub_items["RuleLine"][0]))],
         returns="Rule",
         modifies=["self.id_generator._id_counter"],
         result_is=lambda self, node: spec_rule(node._sub_items["RuleHeader"][0], node._sub_items["Background"],
                                                node._sub_items["ScenarioDefinition"], self.id_generator._id_counter),
         ensures=[clause("ids", lambda self, node: self.id_generator._id_counter == old(self.id_generator._id_counter)
                         + tags_of(node._sub_items["RuleHeader"][0]._sub_items["Tags"], old(self.id_generator._id_counter))[1] + 1,
                         serves=["C11"])],
         serves=["C03", "C04", "C08", "C11", "C17"])

record("SubFeature", fields=dict(FeatureHeader=ListOf(Val("NodeHeader")), Background=ListOf("Background"),
                                 ScenarioDefinition=ListOf("Scenario"), Rule=ListOf("Rule")))
klass("NodeFeature", of="AstNode", fields=dict(rule_type=Str, _sub_items="SubFeature"))

contract("gherkin.ast_builder.AstBuilder.transform_node#Feature",
         dict_hint="Envelope",
         args=dict(self="AstBuilder", node=Val("NodeFeature")),
         requires=[clause("kind", lambda node: node.rule_type == "Feature"),
                   clause("header", lambda node: len(node._sub_items["FeatureHeader"]) == 1
                          and len(node._sub_items["FeatureHeader"][0]._sub_items["FeatureLine"]) == 1
                          and title_token_ok(node._sub_items["FeatureHeader"][0]._sub_items["FeatureLine"][0]))],
         returns="Feature",
         modifies=["self.id_generator._id_counter"],
         result_is=lambda self, node: spec_feature(node._sub_items["FeatureHeader"][0], node._sub_items["Background"],
                                                   node._sub_items["ScenarioDefinition"], node._sub_items["Rule"],
                                                   self.id_generator._id_counter),
         serves=["C03", "C04", "C05", "C08", "C11", "C17"])


# ---- TokenFormatterBuilder (the token listing of C18) ---------------------------------------------------------
klass("TokenFormatterBuilder", fields=dict(_tokens=MutList(Val("Token"))), record=False)


def fmt_item(item):
    return itos(item["column"]) + ":" + item["text"]


def fmt_token(token):
    return ("(" + itos(token.location["line"]) + ":" + itos(token.location["column"]) + ")" + opt_val(token.matched_type) + ":"
            + ((("(" + (opt_val(token.matched_keyword_type) if (not is_none(token.matched_keyword_type)
                                                                and len(opt_val(token.matched_keyword_type)) > 0) else "")
                 + ")" + opt_val(token.matched_keyword))
                if (not is_none(token.matched_keyword) and len(opt_val(token.matched_keyword)) > 0) else ""))
            + "/" + (opt_val(token.matched_text) if (not is_none(token.matched_text) and len(opt_val(token.matched_text)) > 0) else "")
            + "/" + join_sep(",", [fmt_item(i) for i in token.matched_items]))


contract("gherkin.token_formatter_builder.TokenFormatterBuilder._format_token",
         args=dict(token="Token"), variants=[dict(token="Token"), dict(token="TokenEOF")], returns=Str,
         requires=[lambda token: is_eof_token(token) or (not is_none(token.matched_type) and "column" in token.location)],
         ensures=[
             clause("eof", lambda token, result: implies(is_eof_token(token), result == "EOF"), serves=["C18"]),
             clause("listing", lambda token, result: implies(not is_eof_token(token), result == fmt_token(token)),
                    serves=["C18", "C04"]),
         ])
contract("gherkin.token_formatter_builder.TokenFormatterBuilder.build",
         args=dict(self="TokenFormatterBuilder", token="Token"), returns=NoneT, modifies=["self._tokens"],
         ensures=[clause("appended", lambda self, token: self._tokens == old(self._tokens) + [token], serves=["C18"])])
contract("gherkin.token_formatter_builder.TokenFormatterBuilder.reset",
         args=dict(self="TokenFormatterBuilder"), returns=NoneT, modifies=["self._tokens"],
         ensures=[clause("emptied", lambda self: len(self._tokens) == 0, serves=["C18", "C15"])])


# TokenFormatterBuilder.get_result ("\n".join of _format_token over the received tokens) is a comprehension over a
# contract call with a per-element precondition: outside the generator's subset; it is covered by the F comparison
# of the token listings of the acceptance corpus (finite.f_corpus) only.


# ---- builder state between documents (C15) ------------------------------------------------------------------------
klass("AstNodeR", of="AstNode", fields=dict(rule_type=Str), record=False)
contract("gherkin.ast_node.AstNode.__init__", abstract=True,
         args=dict(self=Raw("AstNode"), rule_type=Str), returns=NoneT, modifies=["self.*"],
         notes="the defaultdict(list) of sub-items is outside the subset; the node is used here only as the root marker")

# reset: a used builder is indistinguishable from a new one -- one root node, no comments, counter 0
contract("gherkin.ast_builder.AstBuilder.reset",
         args=dict(self="AstBuilder"), returns=NoneT, modifies=["self.stack", "self.comments", "self.id_counter"],
         ensures=[
             clause("no-comments", lambda self: len(self.comments) == 0, serves=["C15", "C03"]),
             clause("counter", lambda self: self.id_counter == 0, serves=["C15"]),
         ])

record("SubDocument", fields=dict(Feature=ListOf("Feature")))
klass("NodeDocument", of="AstNode", fields=dict(rule_type=Str, _sub_items="SubDocument"))

# the document node: the feature (absent for a document without one -- omitted, not null) and the comments collected by
# build() during this parse
contract("gherkin.ast_builder.AstBuilder.transform_node#GherkinDocument",
         dict_hint="GherkinDocument",
         args=dict(self="AstBuilder", node=Val("NodeDocument")),
         requires=[clause("kind", lambda node: node.rule_type == "GherkinDocument"),
                   clause("at-most-one-feature", lambda node: len(node._sub_items["Feature"]) <= 1)],
         returns="GherkinDocument", modifies=[],
         result_is=lambda self, node: opt_key({"comments": self.comments}, "feature", len(node._sub_items["Feature"]) > 0,
                                              node._sub_items["Feature"][0]),
         serves=["C03", "C17", "C01"])
