# Sidecar contracts for the hand-written part of python/gherkin/parser.py (the razor template's fixed methods).
# Ghost views: a token is identified by its index in the scanner's stream (tid); the stream is
# line tokens 0..nlines-1 followed by EOF tokens for ever.
from pyvc.dsl import *  # noqa

klass("TokenG", of="Token", fields=dict(tid=Int, is_eof=Bool))
klass("ScannerG", of="TokenScanner", fields=dict(nlines=Int, pos=Int), record=False,
      invariant=[clause("range", lambda self: self.nlines >= 0 and self.pos >= 0)])
klass("MatcherG", of="TokenMatcher", fields=dict(resets=Int), record=False)      # ghost: number of reset() calls
klass("ResultG", fields=dict(), record=False)
# ghost field `built`: the tokens the builder has received through build(), in order
# ghost field `rules`: the start_rule / end_rule events it has received, in order ("+" / "-" + rule type)
# ghost field `states`: the state argument of every match_token call of the current parse, in order
klass("BuilderG", of="AstBuilder", fields=dict(built=MutList(Val("TokenG")), rules=MutList(Str), states=MutList(Int)),
      record=False)
klass("ContextG", of="ParserContext",
      fields=dict(token_scanner="ScannerG", token_matcher="MatcherG", token_queue=MutList(Val("TokenG")),
                  errors=MutList(Val("ParserException"))), record=False)
klass("ParserG", of="Parser", fields=dict(ast_builder="BuilderG", stop_at_first_error=Bool), record=False)

# ---- the scanner and the queue -------------------------------------------------------------------
contract("gherkin.token_scanner.TokenScanner.read@ScannerG",
         args=dict(self="ScannerG"), returns=Val("TokenG"), abstract=True,
         modifies=["self.pos"],
         ensures=[
             clause("next", lambda self, result: result.tid == old(self.pos) and result.is_eof == (old(self.pos) >= self.nlines)),
             clause("advance", lambda self: self.pos == old(self.pos) + 1),
         ],
         notes="ghost reading of TokenScanner.read; the concrete contract (line k = k-th LF-delimited segment) is in a_token_scanner.py")

contract("gherkin.token.Token.eof@TokenG",
         args=dict(self=Val("TokenG")), returns=Bool, abstract=True,
         ensures=[clause("eof", lambda self, result: result == self.is_eof)])

contract("gherkin.parser.Parser.read_token",
         args=dict(self="ParserG", context="ContextG"),
         returns=Val("TokenG"),
         modifies=["context.token_queue", "context.token_scanner.pos"],
         ensures=[
             clause("queue-first", lambda context, result: implies(
                 len(old(context.token_queue)) > 0,
                 result == old(context.token_queue)[0] and context.token_queue == old(context.token_queue)[1:]
                 and context.token_scanner.pos == old(context.token_scanner.pos)), serves=["C18"]),
             clause("else-scanner", lambda context, result: implies(
                 len(old(context.token_queue)) == 0,
                 result.tid == old(context.token_scanner.pos)
                 and result.is_eof == (old(context.token_scanner.pos) >= context.token_scanner.nlines)
                 and len(context.token_queue) == 0
                 and context.token_scanner.pos == old(context.token_scanner.pos) + 1), serves=["C18"]),
         ])

# ---- the token matcher as seen by the parser (ghost functions over token ids) ----------------------
#   K(X, t): the matcher recognises token t as kind X;   R(X, t): the matcher raises a ParserException on t
# Justification of these abstract contracts: the Layer-A contracts of token_matcher.py (a_token_matcher.py).
contract_family(
    names=["Empty", "Comment", "FeatureLine", "RuleLine", "BackgroundLine", "StepLine", "DocStringSeparator",
           "TableRow", "Other"],
    template=contract("gherkin.token_matcher.TokenMatcher.match_$X@MatcherG",
                      args=dict(self="MatcherG", token=Val("TokenG")), returns=Bool, abstract=True,
                      ensures=[clause("kind", lambda token, result: result == ghost("K_$X", token.tid))]))
# A Scenario / Examples keyword line is never also a blank, comment or tag line (kind exclusivity; Layer A:
# a title line starts with a keyword and ':', a tag line with '@', a comment with '#', a blank line is empty, and
# no keyword of the dialect table starts with '@' or '#' -- F lemma dialects::no-keyword-starts-with-sigil).
contract_family(
    names=["ScenarioLine", "ExamplesLine"],
    template=contract("gherkin.token_matcher.TokenMatcher.match_$X@MatcherG",
                      args=dict(self="MatcherG", token=Val("TokenG")), returns=Bool, abstract=True,
                      ensures=[clause("kind", lambda token, result: result == ghost("K_$X", token.tid)),
                               clause("exclusive", lambda token, result: implies(result, not (
                                   ghost("K_Empty", token.tid) or ghost("K_Comment", token.tid)
                                   or ghost("K_TagLine", token.tid))))]))
contract_family(
    names=["TagLine", "Language"],
    template=contract("gherkin.token_matcher.TokenMatcher.match_$X@MatcherG",
                      args=dict(self="MatcherG", token=Val("TokenG")), returns=Bool, abstract=True,
                      ensures=[clause("kind", lambda token, result: result == ghost("K_$X", token.tid))],
                      raises=[raises("ParserException", when=lambda token: ghost("R_$X", token.tid))]))
contract("gherkin.token_matcher.TokenMatcher.match_EOF@MatcherG",
         args=dict(self="MatcherG", token=Val("TokenG")), returns=Bool, abstract=True,
         ensures=[clause("kind", lambda token, result: result == token.is_eof)])

contract("gherkin.parser.Parser.handle_external_error", inline=True, args=dict())
contract("gherkin.parser.Parser.handle_ast_error", inline=True, args=dict())


def pm(kind, t):
    # what Parser.match_<kind> answers for token t when it returns normally
    return (not t.is_eof) and ghost("K_" + kind, t.tid)


def msg_in(m, errs):
    return m in [str(e) for e in errs]


def distinct_msgs(errs):
    return forall(len(errs), lambda i: forall(len(errs), lambda j: implies(i != j, str(errs[i]) != str(errs[j]))))


# add_error: errors stay distinct by message; at most 10 at rest; the 11th distinct error raises the composite.
contract("gherkin.parser.Parser.add_error",
         args=dict(self="ParserG", context="ContextG", error="ParserException"),
         requires=[clause("cap", lambda context: len(context.errors) <= 10)],
         returns=NoneT,
         modifies=["context.errors"],
         ensures=[
             clause("dedup", lambda context, error: context.errors == (
                 old(context.errors) if msg_in(str(error), old(context.errors)) else old(context.errors) + [error]),
                 serves=["C14", "C01"]),
             clause("cap", lambda context: len(context.errors) <= 10, serves=["C14", "C01"]),
         ],
         raises=[raises("CompositeParserException",
                        when=lambda context, error: not msg_in(str(error), context.errors) and len(context.errors) >= 10,
                        ensures=[
                            clause("all", lambda exc, context, error: exc.errors == old(context.errors) + [error],
                                   serves=["C14", "C01"]),
                            clause("eleven", lambda exc: len(exc.errors) == 11, serves=["C14", "C01"]),
                        ], serves=["C14", "C01"])])

# ---- Parser.match_<kind>: an EOF token matches nothing but EOF; a matcher exception is collected (or propagates
# ---- in stop-at-first-error mode); nothing but context.errors is written.
contract_family(
    names=["Empty", "Comment", "FeatureLine", "RuleLine", "BackgroundLine", "StepLine", "DocStringSeparator",
           "TableRow", "Other"],
    template=contract("gherkin.parser.Parser.match_$X",
                      args=dict(self="ParserG", context="ContextG", token=Val("TokenG")), returns=Bool,
                      ensures=[clause("answer", lambda token, result: result == pm("$X", token),
                                      serves=["C18", "C02", "C01"])]))
contract_family(
    names=["ScenarioLine", "ExamplesLine"],
    template=contract("gherkin.parser.Parser.match_$X",
                      args=dict(self="ParserG", context="ContextG", token=Val("TokenG")), returns=Bool,
                      ensures=[clause("answer", lambda token, result: result == pm("$X", token),
                                      serves=["C18", "C02", "C01"]),
                               clause("exclusive", lambda token, result: implies(result, not pm_skip(token)),
                                      serves=["C18", "C02"])]))
contract_family(
    names=["TagLine", "Language"],
    template=contract("gherkin.parser.Parser.match_$X",
                      args=dict(self="ParserG", context="ContextG", token=Val("TokenG")), returns=Bool,
                      requires=[clause("cap", lambda context: len(context.errors) <= 10)],
                      modifies=["context.errors"],
                      ensures=[
                          clause("answer", lambda token, result: result == (pm("$X", token) and not ghost("R_$X", token.tid)),
                                 serves=["C18", "C02", "C01"]),
                          clause("collected", lambda self, context, token: implies(
                              token.is_eof or not ghost("R_$X", token.tid), context.errors == old(context.errors)),
                              serves=["C14", "C01"]),
                          clause("cap", lambda context: len(context.errors) <= 10, serves=["C14", "C01"]),
                      ],
                      raises=[
                          raises("ParserException", when=lambda self, token: self.stop_at_first_error
                                 and not token.is_eof and ghost("R_$X", token.tid), serves=["C14", "C01"]),
                          raises("CompositeParserException", serves=["C14", "C01"],
                                 ensures=[clause("eleven", lambda exc: len(exc.errors) == 11, serves=["C14", "C01"])]),
                      ]))
contract("gherkin.parser.Parser.match_EOF",
         args=dict(self="ParserG", context="ContextG", token=Val("TokenG")), returns=Bool,
         ensures=[clause("answer", lambda token, result: result == token.is_eof, serves=["C18", "C02", "C01"])])


def pm_tag(t):
    return pm("TagLine", t) and not ghost("R_TagLine", t.tid)


def pm_skip(t):
    # lines a look-ahead steps over: blank lines, comments, tag lines
    return pm("Empty", t) or pm("Comment", t) or pm_tag(t)


def stream_tok(k, nlines):
    return mk("TokenG", tid=k, is_eof=(k >= nlines))


def is_run(q):
    # the shape of the token queue between look-aheads: empty, or skipped lines followed by the line that stopped the scan
    return len(q) == 0 or (forall(len(q) - 1, lambda j: pm_skip(q[j])) and not pm_skip(q[len(q) - 1]))


# Kind exclusivity used by the look-ahead argument (a Scenario / Examples keyword line is never also a blank,
# comment or tag line) -- a fact about the matcher established in Layer A (recognition conditions + the
# dialect-table lemma "no title keyword starts with '@' or '#'"), assumed here on the ghost functions.
def exclusive(t):
    return implies(pm("ScenarioLine", t) or pm("ExamplesLine", t), not pm_skip(t))


contract_family(
    names=["0:ScenarioLine", "1:ExamplesLine"],
    template=contract(
        "gherkin.parser.Parser.lookahead_$X",
        args=dict(self="ParserG", context="ContextG", currentToken=Val("TokenG")), returns=Bool,
        requires=[
            clause("run", lambda context: is_run(context.token_queue)),
            clause("cap", lambda context: len(context.errors) <= 10),
        ],
        modifies=["context.token_queue", "context.token_scanner.pos", "context.errors"],
        ensures=[
            clause("nothing-lost", lambda context: len(context.token_queue) == len(old(context.token_queue)) + (
                context.token_scanner.pos - old(context.token_scanner.pos))
                and context.token_scanner.pos >= old(context.token_scanner.pos), serves=["C18"]),
            clause("queue-kept", lambda context: forall(len(old(context.token_queue)), lambda j:
                   context.token_queue[j] == old(context.token_queue)[j]), serves=["C18"]),
            clause("read-appended", lambda context: forall(
                context.token_scanner.pos - old(context.token_scanner.pos), lambda j:
                context.token_queue[len(old(context.token_queue)) + j] == stream_tok(
                    old(context.token_scanner.pos) + j, context.token_scanner.nlines)), serves=["C18"]),
            clause("run", lambda context: is_run(context.token_queue) and len(context.token_queue) > 0, serves=["C18"]),
            clause("answer", lambda context, result: result == pm("$K", context.token_queue[len(context.token_queue) - 1]),
                   serves=["C02", "C18"]),
            clause("cap", lambda context: len(context.errors) <= 10, serves=["C14", "C01"]),
        ],
        raises=[raises("ParserException", only_if=lambda self: self.stop_at_first_error, serves=["C14"]),
                raises("CompositeParserException", serves=["C14"])],
        loops={0: loop(
            invariant=[
                clause("read", lambda context, queue: implies(
                    len(entry(context.token_queue)) == 0,
                    len(context.token_queue) == 0
                    and context.token_scanner.pos == entry(context.token_scanner.pos) + len(queue)
                    and forall(len(queue), lambda j: queue[j] == stream_tok(
                        entry(context.token_scanner.pos) + j, context.token_scanner.nlines))), serves=["C18"]),
                clause("requeued", lambda context, queue: implies(
                    len(entry(context.token_queue)) > 0,
                    len(queue) < len(entry(context.token_queue))
                    and context.token_scanner.pos == entry(context.token_scanner.pos)
                    and len(context.token_queue) == len(entry(context.token_queue)) - len(queue)
                    and forall(len(queue), lambda j: queue[j] == entry(context.token_queue)[j])
                    and forall(len(context.token_queue), lambda j:
                               context.token_queue[j] == entry(context.token_queue)[len(queue) + j])), serves=["C18"]),
                clause("skipped", lambda queue, match: forall(len(queue), lambda j: pm_skip(queue[j])) and not match,
                       serves=["C18", "C02"]),
                clause("cap", lambda context: len(context.errors) <= 10, serves=["C14", "C01"]),
                clause("nlines", lambda context: context.token_scanner.nlines == entry(context.token_scanner.nlines)
                       and context.token_scanner.pos >= 0, serves=["C18"]),
            ],
            variant=lambda context: len(context.token_queue) + (
                context.token_scanner.nlines + 1 - context.token_scanner.pos
                if context.token_scanner.pos <= context.token_scanner.nlines else 0),
            types=dict(token=Val("TokenG"), queue=MutList(Val("TokenG"))),
            modifies=["context.token_queue", "context.token_scanner", "context.errors"])}))


# ---- the builder as seen by the parser -------------------------------------------------------------
contract("gherkin.ast_builder.AstBuilder.build@BuilderG",
         args=dict(self="BuilderG", token=Val("TokenG")), returns=NoneT, abstract=True,
         modifies=["self.built"],
         ensures=[clause("received", lambda self, token: self.built == old(self.built) + [token])])
contract("gherkin.ast_builder.AstBuilder.start_rule@BuilderG",
         args=dict(self="BuilderG", rule_type=Str), returns=NoneT, abstract=True, modifies=["self.rules"],
         ensures=[clause("opened", lambda self, rule_type: self.rules == old(self.rules) + ["+" + rule_type])])
contract("gherkin.ast_builder.AstBuilder.end_rule@BuilderG",
         args=dict(self="BuilderG", rule_type=Str), returns=NoneT, abstract=True, modifies=["self.rules"],
         ensures=[clause("closed", lambda self, rule_type: self.rules == old(self.rules) + ["-" + rule_type])],
         raises=[raises("ParserException", ensures=[clause("no-event", lambda self: self.rules == old(self.rules))])],
         notes="end_rule may raise AstBuilderException (ragged table): see c_ast_builder.py")
contract("gherkin.ast_builder.AstBuilder.reset@BuilderG",
         args=dict(self="BuilderG"), returns=NoneT, abstract=True, modifies=["self.built", "self.rules", "self.states"],
         ensures=[clause("fresh", lambda self: len(self.built) == 0 and len(self.rules) == 0 and len(self.states) == 0)])
contract("gherkin.ast_builder.AstBuilder.get_result@BuilderG",
         args=dict(self="BuilderG"), returns="ResultG", abstract=True)
contract("gherkin.token_matcher.TokenMatcher.reset@MatcherG",
         args=dict(self="MatcherG"), returns=NoneT, abstract=True, modifies=["self.resets"],
         ensures=[clause("counted", lambda self: self.resets == old(self.resets) + 1)])

contract("gherkin.parser.Parser.build",
         args=dict(self="ParserG", context="ContextG", token=Val("TokenG")), returns=NoneT,
         modifies=["self.ast_builder.built"],
         ensures=[clause("delivered", lambda self, token: self.ast_builder.built == old(self.ast_builder.built) + [token],
                         serves=["C18", "C03"])])
contract_family(
    names=["start_rule:+", "end_rule:-"],
    template=contract("gherkin.parser.Parser.$X",
                      args=dict(self="ParserG", context="ContextG", rule_type=Str), returns=NoneT,
                      requires=[clause("cap", lambda context: len(context.errors) <= 10)],
                      modifies=["context.errors", "self.ast_builder.rules"],
                      ensures=[clause("cap", lambda context: len(context.errors) <= 10, serves=["C14", "C01"]),
                               clause("monotone", lambda context: len(context.errors) >= len(old(context.errors))
                                      and forall(len(old(context.errors)), lambda j: context.errors[j] == old(context.errors)[j]),
                                      serves=["C14"]),
                               # the builder receives exactly this event (unless it failed, which is then on record)
                               clause("event", lambda self, context, rule_type:
                                      self.ast_builder.rules == old(self.ast_builder.rules) + ["$K" + rule_type]
                                      or (self.ast_builder.rules == old(self.ast_builder.rules) and len(context.errors) >= 1),
                                      serves=["C02", "C03", "C18"]),
                               clause("events-kept", lambda self: len(self.ast_builder.rules) >= len(old(self.ast_builder.rules))
                                      and forall(len(old(self.ast_builder.rules)), lambda j:
                                                 self.ast_builder.rules[j] == old(self.ast_builder.rules)[j]),
                                      serves=["C02", "C03"])],
                      raises=[raises("ParserException", only_if=lambda self: self.stop_at_first_error, serves=["C14", "C01"]),
                              raises("CompositeParserException", serves=["C14", "C01"],
                                     ensures=[clause("eleven", lambda exc: len(exc.errors) == 11, serves=["C14", "C01"])])]))
contract("gherkin.parser.Parser.get_result", inline=True, args=dict())


def queue_is_stream(context, k):
    # the queue holds the next tokens of the stream: queue[j] is stream token k+j, and the scanner stands behind them
    return context.token_scanner.pos == k + len(context.token_queue) and forall(
        len(context.token_queue), lambda j: context.token_queue[j] == stream_tok(k + j, context.token_scanner.nlines))


# match_token: dispatch to the 42 generated state functions.  Abstract at this level; justified by the automaton
# obligations (pyvc/finite.py): every path of every state function either builds the token exactly once (last
# event) or reports it (UnexpectedToken/EOF error) and never both; the queue is only touched through look-ahead.
contract("gherkin.parser.Parser.match_token",
         args=dict(self="ParserG", state=Int, token=Val("TokenG"), context="ContextG"), returns=Int, abstract=True,
         requires=[clause("run", lambda context: is_run(context.token_queue)),
                   clause("cap", lambda context: len(context.errors) <= 10)],
         modifies=["context.token_queue", "context.token_scanner.pos", "context.errors", "self.ast_builder.built",
                   "self.ast_builder.rules", "self.ast_builder.states"],
         ensures=[
             # ghost bookkeeping of the state chain: this call is recorded with its state argument, and its result is
             # the (uninterpreted) successor chosen at this position of the parse
             clause("state-logged", lambda self, state: self.ast_builder.states == old(self.ast_builder.states) + [state]),
             clause("successor", lambda self, result: result == ghost_val("next_state", Int, len(old(self.ast_builder.states)))),
             clause("rules-extended", lambda self: len(self.ast_builder.rules) >= len(old(self.ast_builder.rules))
                    and forall(len(old(self.ast_builder.rules)), lambda j: self.ast_builder.rules[j] == old(self.ast_builder.rules)[j])),
             clause("nothing-lost", lambda context: len(context.token_queue) == len(old(context.token_queue)) + (
                 context.token_scanner.pos - old(context.token_scanner.pos))
                 and context.token_scanner.pos >= old(context.token_scanner.pos)),
             clause("queue-kept", lambda context: forall(len(old(context.token_queue)), lambda j:
                    context.token_queue[j] == old(context.token_queue)[j])),
             clause("read-appended", lambda context: forall(
                 context.token_scanner.pos - old(context.token_scanner.pos), lambda j:
                 context.token_queue[len(old(context.token_queue)) + j] == stream_tok(
                     old(context.token_scanner.pos) + j, context.token_scanner.nlines))),
             clause("run", lambda context: is_run(context.token_queue)),
             clause("cap", lambda context: len(context.errors) <= 10),
             clause("errors-monotone", lambda context: len(context.errors) >= len(old(context.errors))),
             clause("built-or-reported", lambda self, context, token:
                    (self.ast_builder.built == old(self.ast_builder.built) + [token])
                    or (self.ast_builder.built == old(self.ast_builder.built) and len(context.errors) > 0)),
         ],
         raises=[raises("ParserException", only_if=lambda self: self.stop_at_first_error),
                 raises("CompositeParserException", ensures=[clause("eleven", lambda exc: len(exc.errors) == 11)])])

contract("gherkin.parser.ParserContext.__init__", inline=True, args=dict())

# parse: every line token is handed to match_token exactly once, in order, followed by one EOF token; an accepted
# document's builder has received exactly these tokens; a rejected one raises the composite error (1..11 errors).
contract("gherkin.parser.Parser.parse",
         args=dict(self="ParserG", token_scanner_or_str="ScannerG", token_matcher="MatcherG"),
         requires=[clause("fresh-scanner", lambda token_scanner_or_str: token_scanner_or_str.pos == 0)],
         returns="ResultG",
         modifies=["token_scanner_or_str.pos", "self.ast_builder.built", "self.ast_builder.rules", "self.ast_builder.states",
                   "token_matcher.resets"],
         ensures=[
             # the automaton is run from state 0 and every call gets the state the previous call returned
             clause("state-chain", lambda self: len(self.ast_builder.states) >= 1 and forall(
                 len(self.ast_builder.states), lambda j: self.ast_builder.states[j] == (
                     0 if j == 0 else ghost_val("next_state", Int, j - 1))), serves=["C02", "C18"]),
             clause("matcher-reset", lambda token_matcher: token_matcher.resets == old(token_matcher.resets) + 1,
                    serves=["C15", "C02"]),
             # the whole document is bracketed by the GherkinDocument rule
             clause("bracketed", lambda self: len(self.ast_builder.rules) >= 2
                    and self.ast_builder.rules[0] == "+GherkinDocument"
                    and self.ast_builder.rules[len(self.ast_builder.rules) - 1] == "-GherkinDocument",
                    serves=["C02", "C03"]),
             clause("all-delivered", lambda self, token_scanner_or_str:
                    len(self.ast_builder.built) == token_scanner_or_str.nlines + 1
                    and forall(len(self.ast_builder.built), lambda j: self.ast_builder.built[j] == stream_tok(
                        j, token_scanner_or_str.nlines)), serves=["C18", "C03"]),
         ],
         raises=[
             raises("ParserException", only_if=lambda self: self.stop_at_first_error, serves=["C14", "C01"]),
             raises("CompositeParserException", serves=["C14", "C01"],
                    ensures=[clause("one-to-eleven", lambda exc: 1 <= len(exc.errors) and len(exc.errors) <= 11,
                                    serves=["C01", "C14"])]),
         ],
         loops={0: loop(
             invariant=[
                 clause("stream", lambda context, token_scanner_or_str: context.token_scanner is token_scanner_or_str
                        and queue_is_stream(context, context.token_scanner.pos - len(context.token_queue))
                        and context.token_scanner.pos - len(context.token_queue) <= context.token_scanner.nlines
                        and context.token_scanner.nlines == entry(context.token_scanner.nlines),
                        serves=["C18"]),
                 clause("run", lambda context: is_run(context.token_queue), serves=["C18"]),
                 clause("cap", lambda context: len(context.errors) <= 10, serves=["C14", "C01"]),
                 clause("state-chain", lambda self, state: state == (
                     0 if len(self.ast_builder.states) == 0 else ghost_val("next_state", Int, len(self.ast_builder.states) - 1))
                     and forall(len(self.ast_builder.states), lambda j: self.ast_builder.states[j] == (
                         0 if j == 0 else ghost_val("next_state", Int, j - 1))), serves=["C02", "C18"]),
                 clause("matcher-reset", lambda token_matcher: token_matcher.resets == entry(token_matcher.resets),
                        serves=["C15", "C02"]),
                 clause("opened", lambda self, context: implies(
                     len(context.errors) == 0,
                     len(self.ast_builder.rules) >= 1 and self.ast_builder.rules[0] == "+GherkinDocument"),
                     serves=["C02", "C03"]),
                 clause("delivered", lambda self, context: implies(
                     len(context.errors) == 0,
                     len(self.ast_builder.built) == context.token_scanner.pos - len(context.token_queue)
                     and forall(len(self.ast_builder.built), lambda j: self.ast_builder.built[j] == stream_tok(
                         j, context.token_scanner.nlines))), serves=["C18", "C03"]),
             ],
             variant=lambda context: context.token_scanner.nlines + 1 - (
                 context.token_scanner.pos - len(context.token_queue)),
             types=dict(token=Val("TokenG"), context__token_queue=MutList(Val("TokenG")),
                        context__errors=MutList(Val("ParserException"))),
             modifies=["context.token_queue", "context.token_scanner", "context.errors", "self.ast_builder"])})
