# Sidecar contracts for python/gherkin/gherkin_line.py  (parsed with `ast` by pyvc; never edits /repo)
from pyvc.dsl import *  # noqa
from itertools import chain
from gherkin.gherkin_line import GherkinLine

# characters the line functions distinguish: pipe, backslash, 'n', blank kinds (space, tab, NBSP, LF, CR),
# '@', '#', an ordinary and a non-BMP character
LINE_ALPHA = "|\\n \t\u00a0\n\r@#x\U0001F600"


def _lines(bound, seeds, alpha=LINE_ALPHA, prefix=""):
    return chain((GherkinLine(s, 1) for s in seeds if isinstance(s, str)),
                 (GherkinLine(prefix + t, 7) for t in strings(alpha, bound)))

klass("GherkinLine",
      fields=dict(_line_text=Str, _line_number=Int, _trimmed_line_text=Str, indent=Int),
      invariant=[
          clause("trimmed", lambda self: self._trimmed_line_text == lstrip(self._line_text)),
          clause("indent", lambda self: self.indent == len(self._line_text) - len(self._trimmed_line_text)),
      ])

contract("gherkin.gherkin_line.GherkinLine.__init__",
         gen=lambda bound, seeds: chain(((t, 3) for t in seeds if isinstance(t, str)), ((t, 3) for t in strings(" \t\u00a0\nx", bound + 1))),
         args=dict(self=Raw("GherkinLine"), line_text=Str, line_number=Int),
         returns=NoneT,
         modifies=["self.*"],
         ensures=[
             clause("text", lambda self, line_text: self._line_text == line_text, serves=["C03", "C04", "C13"]),
             clause("number", lambda self, line_number: self._line_number == line_number, serves=["C04", "C14"]),
             clause("trimmed", lambda self, line_text: self._trimmed_line_text == lstrip(line_text), serves=["C03", "C16"]),
             clause("indent", lambda self, line_text: self.indent == lead_ws(line_text), serves=["C04", "C16"]),
         ])


contract("gherkin.gherkin_line.GherkinLine.get_rest_trimmed",
         gen=lambda bound, seeds: ((l, k) for l in _lines(bound, seeds, " \tx\n") for k in range(0, 4)),
         args=dict(self="GherkinLine", length=Int),
         requires=[lambda length: length >= 0],
         returns=Str,
         ensures=[clause("rest", lambda self, length, result: result == strip(self._trimmed_line_text[length:]),
                         serves=["C03", "C16", "C05"])])

contract("gherkin.gherkin_line.GherkinLine.get_line_text",
         gen=lambda bound, seeds: ((l, k) for l in _lines(bound, seeds, " \tx\n") for k in range(-1, 5)),
         args=dict(self="GherkinLine", indent_to_remove=Int),
         returns=Str,
         ensures=[clause("text", lambda self, indent_to_remove, result:
                         result == (self._trimmed_line_text if (indent_to_remove < 0 or indent_to_remove > self.indent)
                                    else self._line_text[indent_to_remove:]), serves=["C13", "C03"])])

contract("gherkin.gherkin_line.GherkinLine.is_empty",
         gen=lambda bound, seeds: ((l,) for l in _lines(bound + 1, seeds, " \tx\n\u00a0")),
         args=dict(self="GherkinLine"), returns=Bool,
         ensures=[clause("empty", lambda self, result: result == (len(self._trimmed_line_text) == 0), serves=["C03", "C16"])])

contract("gherkin.gherkin_line.GherkinLine.startswith",
         gen=lambda bound, seeds: ((l, p) for l in _lines(bound, seeds, " x|@") for p in ("", "x", "|", "@", "xx")),
         args=dict(self="GherkinLine", prefix=Str), returns=Bool,
         ensures=[clause("prefix", lambda self, prefix, result: result == startswith(self._trimmed_line_text, prefix),
                         serves=["C05", "C13"])])

contract("gherkin.gherkin_line.GherkinLine.startswith_title_keyword",
         gen=lambda bound, seeds: ((l, p) for l in _lines(bound, seeds, " x:") for p in ("", "x", "xx", "x:")),
         args=dict(self="GherkinLine", keyword=Str), returns=Bool,
         ensures=[clause("prefix", lambda self, keyword, result:
                         result == startswith(self._trimmed_line_text, keyword + ":"), serves=["C05"])])

# split_table_cells: the yielded (cell, start column) pairs are exactly the transducer's output (README rules).
contract("gherkin.gherkin_line.GherkinLine.split_table_cells",
         gen=lambda bound, seeds: chain(((t,) for t in seeds if isinstance(t, str)), ((t,) for t in strings("|\\n x\U0001F600", bound + 2))),
         args=dict(row=Str),
         returns=ListOf(TupleOf(Str, Int)),
         generator=True,
         ensures=[
             clause("cells", lambda row, result: result == spec_split(row), serves=["C12", "C04"]),
         ],
         loops={0: loop(
             invariant=[
                 clause("pos", lambda row, row_iter, col: 0 <= col and col <= len(row) + 1
                        and iter_pos(row_iter) == (col if col <= len(row) else len(row)), serves=["C12", "C04", "C01"]),
                 clause("out", lambda row, col, _yielded:
                        _yielded == split_state(row, col if col <= len(row) else len(row))[0], serves=["C12", "C04"]),
                 clause("state", lambda row, col, cell, start_col, first_cell: implies(
                     col <= len(row),
                     cell == split_state(row, col)[1] and start_col == split_state(row, col)[2]
                     and first_cell == split_state(row, col)[3] and not split_state(row, col)[4]),
                     serves=["C12", "C04"]),
             ],
             variant=lambda row, col: len(row) + 2 - col)})

contract("gherkin.gherkin_line.GherkinLine.table_cells",
         gen=lambda bound, seeds: ((l,) for l in _lines(bound + 1, seeds, "|\\n \t\u00a0x", prefix=" |")),
         args=dict(self="GherkinLine"),
         returns=ListOf("gherkin_line.Cell"),
         ensures=[clause("cells", lambda self, result: result == spec_cells(self._trimmed_line_text, self.indent),
                         serves=["C12", "C04"])],
         loops={0: loop(
             invariant=[clause("acc", lambda cells, _i, _seq, self: len(cells) == _i and forall(
                 _i, lambda j: cells[j] == cell_of(_seq[j][0], _seq[j][1], self.indent)), serves=["C12", "C04"])],
             types=dict(cells=MutList("gherkin_line.Cell")))})

# tags: one item per '@' of the tag line; column = 1-based position of that '@' in the source line;
# the first tag whose value contains whitespace makes the line an error located at that tag.
contract("gherkin.gherkin_line.GherkinLine.tags",
         bounded_only="the split/offset proof does not discharge within the solver budget yet (9 of 17 obligations do)",
         gen=lambda bound, seeds: ((l,) for l in _lines(bound + 1, seeds, "@ \t#x\u00a0\U0001F600", prefix="  @")),
         args=dict(self="GherkinLine"),
         requires=[clause("at-sign", lambda self: startswith(self._trimmed_line_text, "@"))],
         returns=ListOf("gherkin_line.Cell"),
         ensures=[
             clause("count", lambda self, result: len(result) == len(tag_items(self._trimmed_line_text)) - 1,
                    serves=["C03", "C04"]),
             clause("items", lambda self, result: forall(len(result), lambda k: result[k] == tag_cell(
                 tag_items(self._trimmed_line_text), k + 1, self.indent)), serves=["C03", "C04"]),
             clause("at", lambda self, result: forall(len(result), lambda k:
                    char_at(self._line_text, result[k]["column"] - 1) == 64), serves=["C04"]),
             clause("no-ws", lambda self, result: forall(len(result), lambda k: not contains_ws(result[k]["text"])),
                    serves=["C14"]),
         ],
         raises=[raises("ParserException",
                        when=lambda self: exists(len(tag_items(self._trimmed_line_text)) - 1, lambda k: contains_ws(
                            "@" + strip(tag_items(self._trimmed_line_text)[k + 1]))),
                        ensures=[
                            clause("line", lambda self, exc: exc.location["line"] == self._line_number, serves=["C14", "C04"]),
                            clause("has-column", lambda exc: "column" in exc.location, serves=["C14", "C04"]),
                            clause("at", lambda self, exc: char_at(self._line_text, exc.location["column"] - 1) == 64,
                                   serves=["C04", "C14"]),
                            clause("message", lambda self, exc: str(exc) == error_message(
                                self._line_number, exc.location["column"], "A tag may not contain whitespace"),
                                serves=["C14"]),
                        ], serves=["C14"])],
         loops={0: loop(
             invariant=[
                 clause("column", lambda self, column, _i: column == self.indent + split_off(
                     tag_items(self._trimmed_line_text), _i + 1), serves=["C04", "C14"]),
                 clause("acc", lambda self, tags, _i: len(tags) == _i and forall(_i, lambda j: tags[j] == tag_cell(
                     tag_items(self._trimmed_line_text), j + 1, self.indent)), serves=["C03", "C04"]),
                 clause("clean", lambda self, _i: forall(_i, lambda j: not contains_ws(
                     "@" + strip(tag_items(self._trimmed_line_text)[j + 1]))), serves=["C14"]),
             ],
             types=dict(tags=MutList("gherkin_line.Cell")))})
