# Sidecar contracts for python/gherkin/gherkin_line.py  (parsed with `ast` by pyvc; never edits /repo)
from pyvc.dsl import *  # noqa

klass("GherkinLine",
      fields=dict(_line_text=Str, _line_number=Int, _trimmed_line_text=Str, indent=Int),
      invariant=[
          clause("trimmed", lambda self: self._trimmed_line_text == lstrip(self._line_text)),
          clause("indent", lambda self: self.indent == len(self._line_text) - len(self._trimmed_line_text)),
      ])

contract("gherkin.gherkin_line.GherkinLine.__init__",
         args=dict(self="GherkinLineRaw", line_text=Str, line_number=Int),
         returns=NoneT,
         modifies=["self.*"],
         ensures=[
             clause("text", lambda self, line_text: self._line_text == line_text, serves=["C03", "C04", "C13"]),
             clause("number", lambda self, line_number: self._line_number == line_number, serves=["C04", "C14"]),
             clause("trimmed", lambda self, line_text: self._trimmed_line_text == lstrip(line_text), serves=["C03", "C16"]),
             clause("indent", lambda self, line_text: self.indent == lead_ws(line_text), serves=["C04", "C16"]),
         ])

klass("GherkinLineRaw", fields=dict(), record=False)

contract("gherkin.gherkin_line.GherkinLine.get_rest_trimmed",
         args=dict(self="GherkinLine", length=Int),
         requires=[lambda length: length >= 0],
         returns=Str,
         ensures=[clause("rest", lambda self, length, result: result == strip(self._trimmed_line_text[length:]),
                         serves=["C03", "C16", "C05"])])

contract("gherkin.gherkin_line.GherkinLine.get_line_text",
         args=dict(self="GherkinLine", indent_to_remove=Int),
         returns=Str,
         ensures=[clause("text", lambda self, indent_to_remove, result:
                         result == (self._trimmed_line_text if (indent_to_remove < 0 or indent_to_remove > self.indent)
                                    else self._line_text[indent_to_remove:]), serves=["C13", "C03"])])

contract("gherkin.gherkin_line.GherkinLine.is_empty",
         args=dict(self="GherkinLine"), returns=Bool,
         ensures=[clause("empty", lambda self, result: result == (len(self._trimmed_line_text) == 0), serves=["C03", "C16"])])

contract("gherkin.gherkin_line.GherkinLine.startswith",
         args=dict(self="GherkinLine", prefix=Str), returns=Bool,
         ensures=[clause("prefix", lambda self, prefix, result: result == startswith(self._trimmed_line_text, prefix),
                         serves=["C05", "C13"])])

contract("gherkin.gherkin_line.GherkinLine.startswith_title_keyword",
         args=dict(self="GherkinLine", keyword=Str), returns=Bool,
         ensures=[clause("prefix", lambda self, keyword, result:
                         result == startswith(self._trimmed_line_text, keyword + ":"), serves=["C05"])])

# split_table_cells: the yielded (cell, start column) pairs are exactly the transducer's output (README rules).
contract("gherkin.gherkin_line.GherkinLine.split_table_cells",
         args=dict(row=Str),
         returns=ListOf(TupleOf(Str, Int)),
         generator=True,
         ensures=[
             clause("cells", lambda row, result: result == spec_split(row), serves=["C12", "C04"]),
         ],
         loops={0: loop(
             invariant=[
                 clause("pos", lambda row, row_iter, col: 0 <= col and col <= len(row) + 1
                        and iter_pos(row_iter) == (col if col <= len(row) else len(row)), serves=["C12", "C04", "C01"]),
                 clause("out", lambda row, col, _yielded:
                        _yielded == split_state(row, col if col <= len(row) else len(row))[0], serves=["C12", "C04"]),
                 clause("state", lambda row, col, cell, start_col, first_cell: implies(
                     col <= len(row),
                     cell == split_state(row, col)[1] and start_col == split_state(row, col)[2]
                     and first_cell == split_state(row, col)[3] and not split_state(row, col)[4]),
                     serves=["C12", "C04"]),
             ],
             variant=lambda row, col: len(row) + 2 - col)})

contract("gherkin.gherkin_line.GherkinLine.table_cells",
         args=dict(self="GherkinLine"),
         returns=ListOf("gherkin_line.Cell"),
         ensures=[clause("cells", lambda self, result: result == spec_cells(self._trimmed_line_text, self.indent),
                         serves=["C12", "C04"])],
         loops={0: loop(
             invariant=[clause("acc", lambda cells, _i, _seq, self: len(cells) == _i and forall(
                 _i, lambda j: cells[j] == cell_of(_seq[j][0], _seq[j][1], self.indent)), serves=["C12", "C04"])],
             types=dict(cells=MutList("gherkin_line.Cell")))})
