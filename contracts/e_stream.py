# Sidecar contracts for python/gherkin/stream/*.py (Layer E)
from pyvc.dsl import *  # noqa

record("EnvelopeOut", fields=dict(source="source_events.Source", gherkinDocument="GherkinDocumentWithURI", pickle="Pickle",
                                  parseError="ParseError"),
       optional=["source", "gherkinDocument", "pickle", "parseError"])

klass("OptionsE", of="GherkinEvents.Options", fields=dict(print_source=Bool, print_ast=Bool, print_pickles=Bool), record=False)
klass("ParserE", of="Parser", fields=dict(), record=False)
klass("CompilerE", of="Compiler", fields=dict(), record=False)
klass("GherkinEvents", fields=dict(options="OptionsE", parser="ParserE", compiler="CompilerE"), record=False)

# the parse / compile outcome for a source text as ghost functions (their contracts are Layers B-D)
contract("gherkin.parser.Parser.parse@ParserE",
         args=dict(self="ParserE", token_scanner_or_str=Str), returns="GherkinDocument", abstract=True,
         result_is=lambda token_scanner_or_str: ghost_val("doc", "GherkinDocument", token_scanner_or_str),
         ensures=[clause("accepted", lambda token_scanner_or_str: not ghost("rejected", token_scanner_or_str))],
         raises=[raises("CompositeParserException", when=lambda token_scanner_or_str: ghost("rejected", token_scanner_or_str),
                        ensures=[clause("errors", lambda exc, token_scanner_or_str: exc.errors == ghost_val(
                            "errors", ListOf(Val("ParserException")), token_scanner_or_str) and len(exc.errors) >= 1)])])
contract("gherkin.pickles.compiler.Compiler.compile@CompilerE",
         args=dict(self="CompilerE", gherkin_document="GherkinDocumentWithURI"), returns=ListOf("Pickle"), abstract=True,
         result_is=lambda gherkin_document: ghost_val("pickles", ListOf("Pickle"), gherkin_document))


def perr(e, uri):
    return typed("EnvelopeOut", {"parseError": {"source": {"uri": uri, "location": e.location}, "message": str(e)}})


contract("gherkin.stream.gherkin_events.create_errors",
         args=dict(errors=ListOf(Val("ParserException")), uri=Str), generator=True, dict_hint="EnvelopeOut",
         returns=ListOf("EnvelopeOut"),
         result_is=lambda errors, uri: [perr(e, uri) for e in errors],
         serves=["C17", "C14", "C01"],
         loops={0: loop(invariant=[clause("so-far", lambda _yielded, _i, _seq, uri:
                                          _yielded == [perr(e, uri) for e in _seq[:_i]], serves=["C17", "C14", "C01"])])})


def with_uri(doc, uri):
    return opt_key({"comments": doc["comments"], "uri": uri}, "feature", "feature" in doc, doc["feature"])


def expected_ok(options, source_event, doc, uri):
    return (((seq_empty("EnvelopeOut") + [typed("EnvelopeOut", {"source": source_event["source"]})])
             if options.print_source else seq_empty("EnvelopeOut"))
            + ((seq_empty("EnvelopeOut") + [typed("EnvelopeOut", {"gherkinDocument": with_uri(doc, uri)})])
               if options.print_ast else seq_empty("EnvelopeOut"))
            + ([typed("EnvelopeOut", {"pickle": p}) for p in ghost_val(
                "pickles", ListOf("Pickle"), typed("GherkinDocumentWithURI", with_uri(doc, uri)))]
               if options.print_pickles else seq_empty("EnvelopeOut")))


# enum: source, gherkinDocument (with the uri), pickles -- in this order, each gated by its option -- for an accepted
# source; only parseError envelopes, one per error, for a rejected one.
contract("gherkin.stream.gherkin_events.GherkinEvents.enum",
         args=dict(self="GherkinEvents", source_event="Event"), generator=True, dict_hint="EnvelopeOut",
         returns=ListOf("EnvelopeOut"),
         ensures=[
             clause("accepted", lambda self, source_event, result: implies(
                 not ghost("rejected", source_event["source"]["data"]),
                 result == expected_ok(self.options, source_event,
                                       ghost_val("doc", "GherkinDocument", source_event["source"]["data"]),
                                       source_event["source"]["uri"])), serves=["C17", "C01"]),
             # the parser, compiler (and with them the id generator they share) stay the stream's own: ids keep counting
             clause("same-components", lambda self: same_ref(self.parser) and same_ref(self.compiler)
                    and same_ref(self.options), serves=["C11", "C15", "C17"]),
             clause("rejected", lambda source_event, result: implies(
                 ghost("rejected", source_event["source"]["data"]),
                 result == [perr(e, source_event["source"]["uri"]) for e in ghost_val(
                     "errors", ListOf(Val("ParserException")), source_event["source"]["data"])]),
                 serves=["C17", "C14", "C01"]),
         ],
         loops={0: loop(invariant=[clause("pickles", lambda _yielded, _i, _seq: _yielded == entry(_yielded) + [
             typed("EnvelopeOut", {"pickle": p}) for p in _seq[:_i]], serves=["C17", "C01"])])})


# source_event: uri is the path, data is the file's text *unchanged* (decoded as UTF-8, no newline translation:
# ghost file_text(path, raw=True)), mediaType is the Gherkin media type.
contract("gherkin.stream.source_events.source_event",
         args=dict(path=Str), returns="source_events.Event", dict_hint="source_events.Event",
         ensures=[
             clause("uri", lambda path, result: result["source"]["uri"] == path, serves=["C17"]),
             clause("text-unchanged", lambda path, result: result["source"]["data"] == ghost_val(
                 "file_text", Str, path, True), serves=["C17", "C16"]),
             clause("media-type", lambda result: result["source"]["mediaType"] == "text/x.cucumber.gherkin+plain",
                    serves=["C17"]),
         ])
