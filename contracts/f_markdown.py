# Sidecar contracts for python/gherkin/token_matcher_markdown.py (Layer F, property C19)
#
# The regular-expression core -- _match_title_line (pattern built from dialect data at run time), match_TagLine
# (re.finditer) and _is_gfm_table_separator (map/filter over re.match) -- is outside the VC generator's subset.  These
# three carry contracts over ghost functions, are declared bounded_only, and their meaning is pinned by the complete
# enumerations of pyvc/enum_markdown.py.  Everything that *uses* them is proved against those contracts: which keyword
# lists, prefix, suffix and token type each match_* passes on, the order of scenario / outline and of the five step
# lists, the feature-line flag, the table-row indentation window, the doc string delimiters, reset.
from pyvc.dsl import *  # noqa

klass("MdMatcher", of="GherkinInMarkdownTokenMatcher",
      fields=dict(_default_dialect_name=Str, dialect_name=Str, dialect="Dialect",
                  keyword_types=MapOf(Str, ListOf(Str)), _indent_to_remove=Int, _active_doc_string_separator=Opt(Str),
                  matched_feature_line=Bool),
      record=False)

TOKEN_FIELDS = ["token.matched_type", "token.matched_text", "token.matched_keyword", "token.matched_keyword_type",
                "token.matched_indent", "token.matched_items", "token.matched_gherkin_dialect", "token.location"]

HEADER = "^(#{1,6}\\s)"
BULLET = "^(\\s*[*+-]\\s*)"


def md_hit(prefix, keywords, suffix, text):
    return ghost("md_title", prefix, keywords, suffix, text)


def md_kw(prefix, keywords, suffix, text):
    return ghost_val("md_keyword", Str, prefix, keywords, suffix, text)


def md_text(prefix, keywords, suffix, text):
    return ghost_val("md_text", Str, prefix, keywords, suffix, text)


def md_plen(prefix, keywords, suffix, text):
    return ghost_val("md_prefix_len", Int, prefix, keywords, suffix, text)


def title_fields(self, token, token_type, prefix, keywords, suffix):
    return (token.matched_type == token_type
            and token.matched_keyword == md_kw(prefix, keywords, suffix, token.line._trimmed_line_text)
            and token.matched_text == md_text(prefix, keywords, suffix, token.line._trimmed_line_text)
            and token.matched_indent == token.line.indent + md_plen(prefix, keywords, suffix, token.line._trimmed_line_text)
            and token.location["column"] == token.matched_indent + 1
            and token.matched_gherkin_dialect == self.dialect_name)


contract("gherkin.token_matcher_markdown.GherkinInMarkdownTokenMatcher._match_title_line",
         args=dict(self="MdMatcher", prefix=Str, keywords=ListOf(Str), keywordSuffix=Str, token="Token", token_type=Str),
         returns=Bool, modifies=TOKEN_FIELDS,
         bounded_only="the pattern is an alternation of re.escape'd keywords built at run time and searched with re.search",
         standin="markdown::",
         ensures=[
             clause("recognised", lambda prefix, keywords, keywordSuffix, token, result:
                    result == md_hit(prefix, keywords, keywordSuffix, token.line._trimmed_line_text), serves=["C19"]),
             clause("fields", lambda self, prefix, keywords, keywordSuffix, token, token_type, result: implies(
                 result, title_fields(self, token, token_type, prefix, keywords, keywordSuffix)), serves=["C19"]),
             clause("untouched", lambda token, result: implies(
                 not result, token.matched_type == old(token.matched_type) and token.matched_text == old(token.matched_text)
                 and token.matched_keyword == old(token.matched_keyword)), serves=["C19"]),
         ])

contract_family(
    names=["RuleLine:rule", "BackgroundLine:background", "ExamplesLine:examples"],
    template=contract("gherkin.token_matcher_markdown.GherkinInMarkdownTokenMatcher.match_$X",
                      args=dict(self="MdMatcher", token="Token"), returns=Bool, modifies=TOKEN_FIELDS,
                      ensures=[
                          clause("header-of-role", lambda self, token, result: result == md_hit(
                              HEADER, self.dialect.spec["$K"], ":", token.line._trimmed_line_text), serves=["C19"]),
                          clause("fields", lambda self, token, result: implies(result, title_fields(
                              self, token, "$X", HEADER, self.dialect.spec["$K"], ":")), serves=["C19"]),
                      ]))

contract("gherkin.token_matcher_markdown.GherkinInMarkdownTokenMatcher.match_ScenarioLine",
         args=dict(self="MdMatcher", token="Token"), returns=Bool, modifies=TOKEN_FIELDS,
         ensures=[
             clause("scenario-or-outline", lambda self, token, result: result == (
                 md_hit(HEADER, self.dialect.spec["scenario"], ":", token.line._trimmed_line_text)
                 or md_hit(HEADER, self.dialect.spec["scenarioOutline"], ":", token.line._trimmed_line_text)), serves=["C19"]),
             clause("scenario-first", lambda self, token, result: implies(
                 md_hit(HEADER, self.dialect.spec["scenario"], ":", token.line._trimmed_line_text),
                 title_fields(self, token, "ScenarioLine", HEADER, self.dialect.spec["scenario"], ":")), serves=["C19"]),
             clause("outline-otherwise", lambda self, token, result: implies(
                 result and not md_hit(HEADER, self.dialect.spec["scenario"], ":", token.line._trimmed_line_text),
                 title_fields(self, token, "ScenarioLine", HEADER, self.dialect.spec["scenarioOutline"], ":")), serves=["C19"]),
         ])


def md_step_keywords(self):
    return (self.dialect.spec["given"] + self.dialect.spec["when"] + self.dialect.spec["then"]
            + self.dialect.spec["and"] + self.dialect.spec["but"])


contract("gherkin.token_matcher_markdown.GherkinInMarkdownTokenMatcher.match_StepLine",
         args=dict(self="MdMatcher", token="Token"), returns=Bool, modifies=TOKEN_FIELDS,
         ensures=[
             clause("bullet-and-step-keyword", lambda self, token, result: result == md_hit(
                 BULLET, md_step_keywords(self), "", token.line._trimmed_line_text), serves=["C19"]),
             clause("fields", lambda self, token, result: implies(result, title_fields(
                 self, token, "StepLine", BULLET, md_step_keywords(self), "")), serves=["C19"]),
         ])

# match_FeatureLine: a header line with a feature keyword; the flag remembers whether one was matched.  (When no
# header matches, the line is still *marked* as a FeatureLine carrying the whole line, but the answer is False.)
contract("gherkin.token_matcher_markdown.GherkinInMarkdownTokenMatcher.match_FeatureLine",
         args=dict(self="MdMatcher", token="Token"), returns=Bool,
         modifies=TOKEN_FIELDS + ["self.matched_feature_line"],
         ensures=[
             clause("header-of-role", lambda self, token, result: result == md_hit(
                 HEADER, self.dialect.spec["feature"], ":", token.line._trimmed_line_text), serves=["C19"]),
             clause("fields", lambda self, token, result: implies(result, title_fields(
                 self, token, "FeatureLine", HEADER, self.dialect.spec["feature"], ":")), serves=["C19"]),
             clause("flag", lambda self, result: self.matched_feature_line == result, serves=["C19", "C15"]),
         ])

contract("gherkin.token_matcher_markdown.GherkinInMarkdownTokenMatcher.match_Language",
         args=dict(self="MdMatcher", token="Token"), returns=Bool, modifies=[],
         ensures=[clause("never", lambda result: result == False, serves=["C19"])])

contract("gherkin.token_matcher_markdown.GherkinInMarkdownTokenMatcher._default_docstring_content_type",
         inline=True, args=dict())

# ---- tables -----------------------------------------------------------------------------------------------------
contract("gherkin.token_matcher_markdown.GherkinInMarkdownTokenMatcher._is_gfm_table_separator",
         args=dict(self="MdMatcher", table_cells=ListOf("gherkin_line.Cell")), returns=Bool, modifies=[],
         bounded_only="map/filter/lambda over re.match('^:?-+:?$') per cell", standin="markdown::tables",
         ensures=[clause("separator", lambda table_cells, result: result == ghost("md_separator_row", table_cells),
                         serves=["C19"])])

# a table row is recognised iff the line starts with two to five white-space characters followed by '|' and its cells
# do not form a GFM separator row; the items are the cells of the plain reader (GherkinLine.table_cells)
contract("gherkin.token_matcher_markdown.GherkinInMarkdownTokenMatcher.match_TableRow",
         args=dict(self="MdMatcher", token="Token"), returns=Bool, modifies=TOKEN_FIELDS,
         ensures=[
             clause("window", lambda token, result: result == (
                 2 <= lead_ws(token.line._line_text) and lead_ws(token.line._line_text) <= 5
                 and lead_ws(token.line._line_text) < len(token.line._line_text)
                 and char_at(token.line._line_text, lead_ws(token.line._line_text)) == 124
                 and not ghost("md_separator_row", spec_cells(token.line._trimmed_line_text, token.line.indent))), serves=["C19"]),
             clause("fields", lambda token, result: implies(
                 result, token.matched_type == "TableRow" and token.matched_keyword == "|"
                 and token.matched_items == spec_cells(token.line._trimmed_line_text, token.line.indent)
                 and token.location["column"] == token.line.indent + 1), serves=["C19", "C12"]),
         ])

# ---- tags -------------------------------------------------------------------------------------------------------
contract("gherkin.token_matcher_markdown.GherkinInMarkdownTokenMatcher.match_TagLine",
         args=dict(self="MdMatcher", token="Token"), returns=Bool, modifies=TOKEN_FIELDS,
         bounded_only="iterates over re.finditer matches", standin="markdown::tags",
         ensures=[clause("tags", lambda token, result: result == ghost("md_has_tags", token.line._trimmed_line_text),
                         serves=["C19"])])

# ---- doc strings: the base machine with the Markdown delimiters; an empty media type / closing text is "" ----------
contract("gherkin.token_matcher.TokenMatcher._match_DocStringSeparator@MdMatcher",
         args=dict(self="MdMatcher", token="Token", separator=Str, is_open=Bool), returns=Bool,
         modifies=TOKEN_FIELDS + ["self._active_doc_string_separator", "self._indent_to_remove"],
         ensures=[
             clause("recognised", lambda token, separator, result: result == startswith(token.line._trimmed_line_text, separator),
                    serves=["C19", "C13"]),
             clause("open", lambda self, token, separator, is_open, result: implies(
                 result and is_open, self._active_doc_string_separator == separator
                 and self._indent_to_remove == token.line.indent
                 and token.matched_text == strip_crlf(strip(token.line._trimmed_line_text[len(separator):]))),
                 serves=["C19", "C13"]),
             clause("close", lambda self, token, is_open, result: implies(
                 result and not is_open, is_none(self._active_doc_string_separator) and self._indent_to_remove == 0
                 and token.matched_text == ""), serves=["C19", "C13"]),
             clause("fields", lambda token, separator, result: implies(
                 result, token.matched_type == "DocStringSeparator" and token.matched_keyword == separator), serves=["C19"]),
             clause("no-match-no-change", lambda self, result: implies(
                 not result, self._active_doc_string_separator == old(self._active_doc_string_separator)
                 and self._indent_to_remove == old(self._indent_to_remove)), serves=["C19", "C13"]),
         ])

contract("gherkin.token_matcher_markdown.GherkinInMarkdownTokenMatcher.match_DocStringSeparator",
         args=dict(self="MdMatcher", token="Token"), returns=Bool,
         modifies=TOKEN_FIELDS + ["self._active_doc_string_separator", "self._indent_to_remove"],
         ensures=[
             clause("opens", lambda self, token, result: implies(
                 is_none(old(self._active_doc_string_separator)) or len(opt_val(old(self._active_doc_string_separator))) == 0,
                 result == (startswith(token.line._trimmed_line_text, '"""') or startswith(token.line._trimmed_line_text, "```"))),
                 serves=["C19", "C13"]),
             clause("delimiter", lambda self, token, result: implies(
                 result and (is_none(old(self._active_doc_string_separator))
                             or len(opt_val(old(self._active_doc_string_separator))) == 0),
                 self._active_doc_string_separator == ('"""' if startswith(token.line._trimmed_line_text, '"""') else (
                     "````" if startswith(token.line._trimmed_line_text, "````") else "```"))
                 and self._indent_to_remove == token.line.indent), serves=["C19", "C13"]),
             clause("closes-with-own-delimiter", lambda self, token, result: implies(
                 not is_none(old(self._active_doc_string_separator)) and len(opt_val(old(self._active_doc_string_separator))) > 0,
                 result == startswith(token.line._trimmed_line_text, opt_val(old(self._active_doc_string_separator)))
                 and implies(result, is_none(self._active_doc_string_separator) and self._indent_to_remove == 0)),
                 serves=["C19", "C13"]),
         ])

contract("gherkin.token_matcher_markdown.GherkinInMarkdownTokenMatcher.reset",
         args=dict(self="MdMatcher"),
         requires=[clause("default-known", lambda self: ghost("known_dialect", self._default_dialect_name))],
         returns=NoneT,
         modifies=["self.dialect_name", "self.dialect", "self.keyword_types", "self._indent_to_remove",
                   "self._active_doc_string_separator", "self.matched_feature_line"],
         ensures=[clause("fresh", lambda self: self._indent_to_remove == 0 and is_none(self._active_doc_string_separator)
                         and self.dialect_name == self._default_dialect_name and self.matched_feature_line == False,
                         serves=["C19", "C15"])])
