# Sidecar contracts for python/gherkin/pickles/compiler.py
from pyvc.dsl import *  # noqa

klass("IdGenerator", fields=dict(_id_counter=Int), record=False)
klass("Compiler", fields=dict(id_generator="IdGenerator"), record=False)

contract("gherkin.stream.id_generator.IdGenerator.get_next_id", inline=True,
         args=dict(self="IdGenerator"), returns=Str,
         modifies=["self._id_counter"],
         ensures=[
             clause("id", lambda self, result: result == itos(old(self._id_counter)), serves=["C11"]),
             clause("next", lambda self: self._id_counter == old(self._id_counter) + 1, serves=["C11"]),
         ])

contract("gherkin.pickles.compiler.Compiler._pickle_tag", inline=True,
         args=dict(tag="Tag"), returns="PickleTag",
         result_is=lambda tag: pickle_tag(tag), serves=["C08", "C11"])

contract("gherkin.pickles.compiler.Compiler._pickle_tags",
         args=dict(self="Compiler", tags=ListOf("Tag")), returns=ListOf("PickleTag"),
         result_is=lambda tags: pickle_tags(tags), serves=["C08", "C11"])

contract("gherkin.pickles.compiler.is_background_container", inline=True, args=dict())
contract("gherkin.pickles.compiler.is_rule_container", inline=True, args=dict())
contract("gherkin.pickles.compiler.is_scenario_container", inline=True, args=dict())

# _interpolate: literal substitution, all occurrences, columns in header order; None stays None.
contract("gherkin.pickles.compiler.Compiler._interpolate",
         args=dict(self="Compiler", name=Str, variable_cells=ListOf("parser_types.Cell"), value_cells=ListOf("parser_types.Cell")),
         requires=[clause("rectangular", lambda variable_cells, value_cells: len(value_cells) >= len(variable_cells))],
         variants=[dict(name=Str), dict(name=NoneT)],
         returns=Opt(Str),
         result_is=lambda name, variable_cells, value_cells: (None if name is None
                                                               else interp(name, variable_cells, value_cells)),
         serves=["C09", "C01"],
         loops={0: loop(invariant=[clause("prefix", lambda name, variable_cells, value_cells, _i:
                                          name == interp_prefix(old(name), variable_cells, value_cells, _i),
                                          serves=["C09"])])})

contract("gherkin.pickles.compiler.Compiler._create_pickle_arguments",
         args=dict(self="Compiler", step="Step", variables=ListOf("parser_types.Cell"), values=ListOf("parser_types.Cell")),
         requires=[clause("rectangular", lambda variables, values: len(values) >= len(variables))],
         returns=Opt("PickleArgumentEnvelope"),
         result_is=lambda step, variables, values: spec_argument(step, variables, values),
         serves=["C07", "C09", "C01", "C17"],      # C17: an absent media type is omitted, never null (record shape)
         loops={0: loop(invariant=[clause("rows", lambda table, _i, _seq, variables, values:
                                          len(table["rows"]) == _i and forall(_i, lambda j: table["rows"][j] == arg_row(
                                              _seq[j], variables, values)), serves=["C07", "C09"])])})

contract("gherkin.pickles.compiler.Compiler._pickle_step",
         args=dict(self="Compiler", step="Step", keyword_type=Str), returns="PickleStep",
         modifies=["self.id_generator._id_counter"],
         result_is=lambda self, step, keyword_type: spec_pstep(
             step, keyword_type, itos(self.id_generator._id_counter), seq_empty(Str), step["text"],
             seq_empty("parser_types.Cell"), seq_empty("parser_types.Cell")),
         ensures=[clause("one-id", lambda self: self.id_generator._id_counter == old(self.id_generator._id_counter) + 1,
                         serves=["C11"])],
         serves=["C07", "C09", "C10", "C11", "C17"])

# _compile_scenario: exactly one pickle is appended; steps = in-scope background steps then own steps (none when the
# scenario has no steps); tags = inherited then own; types carried over and/but steps; ids steps first, then the pickle.
contract("gherkin.pickles.compiler.Compiler._compile_scenario",
         args=dict(self="Compiler", uri=Str, inherited_tags=ListOf("Tag"), background_steps=MutList("Step"),
                   scenario="Scenario", language=Str, pickles=MutList("Pickle")),
         returns=NoneT,
         modifies=["pickles", "self.id_generator._id_counter"],
         ensures=[
             clause("one-pickle", lambda pickles: len(pickles) == len(old(pickles)) + 1
                    and forall(len(old(pickles)), lambda j: pickles[j] == old(pickles)[j]),
                    serves=["C06", "C07", "C08", "C09", "C10", "C11"]),
             clause("source", lambda pickles, scenario, uri, language:
                    pickles[len(pickles) - 1]["astNodeIds"] == [scenario["id"]]
                    and pickles[len(pickles) - 1]["name"] == scenario["name"]
                    and pickles[len(pickles) - 1]["uri"] == uri
                    and pickles[len(pickles) - 1]["language"] == language, serves=["C06", "C11"]),
             clause("tags", lambda pickles, inherited_tags, scenario:
                    pickles[len(pickles) - 1]["tags"] == pickle_tags(inherited_tags + scenario["tags"]), serves=["C08"]),
             clause("steps", lambda self, pickles, background_steps, scenario:
                    len(pickles[len(pickles) - 1]["steps"]) == len(scenario_steps(background_steps, scenario))
                    and forall(len(scenario_steps(background_steps, scenario)), lambda j:
                               pickles[len(pickles) - 1]["steps"][j] == plain_pstep(
                                   scenario_steps(background_steps, scenario), j, old(self.id_generator._id_counter))),
                    serves=["C06", "C07", "C10", "C09", "C11"]),
             clause("content-source", lambda pickles, inherited_tags, background_steps, scenario, uri, language: same_source(
                 pickles[len(old(pickles))], plain_pickle(scenario, inherited_tags, background_steps, uri, language)),
                 serves=["C06", "C11"]),
             clause("content-tags", lambda pickles, inherited_tags, background_steps, scenario, uri, language: same_tags(
                 pickles[len(old(pickles))], plain_pickle(scenario, inherited_tags, background_steps, uri, language)),
                 serves=["C08"]),
             clause("content-steps", lambda pickles, inherited_tags, background_steps, scenario, uri, language: same_steps(
                 pickles[len(old(pickles))], plain_pickle(scenario, inherited_tags, background_steps, uri, language)),
                 serves=["C07", "C09", "C10"]),
             clause("ids", lambda self, pickles, background_steps, scenario:
                    pickles[len(pickles) - 1]["id"] == itos(old(self.id_generator._id_counter) + len(
                        scenario_steps(background_steps, scenario)))
                    and self.id_generator._id_counter == old(self.id_generator._id_counter) + len(
                        scenario_steps(background_steps, scenario)) + 1, serves=["C11"]),
         ],
         loops={0: loop(
             invariant=[
                 clause("steps", lambda self, steps, _i, _seq: len(steps) == _i and forall(_i, lambda j: steps[j] == plain_pstep(
                     _seq, j, old(self.id_generator._id_counter))), serves=["C07", "C10", "C09", "C11"]),
                 clause("type", lambda last_keyword_type, _i, _seq: last_keyword_type == eff_type(_seq, _i), serves=["C10"]),
                 clause("counter", lambda self, _i: self.id_generator._id_counter == old(self.id_generator._id_counter) + _i,
                        serves=["C11"]),
             ],
             types=dict(steps=MutList("PickleStep")),
             modifies=["self.id_generator"])})

# _compile_scenario_outline: one pickle per body row of every examples table that has a header, in order;
# content (source, tags, steps) of each = row_pickle(...)   [ids: see clause 'ids-advance'; dense order is C11's bounded part]
contract("gherkin.pickles.compiler.Compiler._compile_scenario_outline",
         args=dict(self="Compiler", uri=Str, inherited_tags=ListOf("Tag"), background_steps=MutList("Step"),
                   scenario="Scenario", language=Str, pickles=MutList("Pickle")),
         requires=[clause("rectangular", lambda scenario: rectangular(scenario))],
         returns=NoneT,
         modifies=["pickles", "self.id_generator._id_counter"],
         ensures=[
             clause("count", lambda pickles, scenario, inherited_tags, background_steps, uri, language:
                    len(pickles) == len(old(pickles)) + len(outline_flat(len(scenario["examples"]), scenario, inherited_tags,
                                                                         background_steps, uri, language))
                    and forall(len(old(pickles)), lambda j: pickles[j] == old(pickles)[j]),
                    serves=["C06", "C07", "C08", "C09", "C10", "C11"]),
             clause("source", lambda pickles, scenario, inherited_tags, background_steps, uri, language: forall(
                 len(outline_flat(len(scenario["examples"]), scenario, inherited_tags, background_steps, uri, language)),
                 lambda k: same_source(pickles[len(old(pickles)) + k], outline_flat(
                     len(scenario["examples"]), scenario, inherited_tags, background_steps, uri, language)[k])),
                 serves=["C06", "C09", "C11"]),
             clause("tags", lambda pickles, scenario, inherited_tags, background_steps, uri, language: forall(
                 len(outline_flat(len(scenario["examples"]), scenario, inherited_tags, background_steps, uri, language)),
                 lambda k: same_tags(pickles[len(old(pickles)) + k], outline_flat(
                     len(scenario["examples"]), scenario, inherited_tags, background_steps, uri, language)[k])),
                 serves=["C08"]),
             clause("steps", lambda pickles, scenario, inherited_tags, background_steps, uri, language: forall(
                 len(outline_flat(len(scenario["examples"]), scenario, inherited_tags, background_steps, uri, language)),
                 lambda k: same_steps(pickles[len(old(pickles)) + k], outline_flat(
                     len(scenario["examples"]), scenario, inherited_tags, background_steps, uri, language)[k])),
                 serves=["C06", "C07", "C09", "C10"]),
             clause("ids-advance", lambda self: self.id_generator._id_counter >= old(self.id_generator._id_counter),
                    serves=["C11"]),
         ],
         loops={
             0: loop(invariant=[
                 clause("count", lambda pickles, _i, scenario, inherited_tags, background_steps, uri, language:
                        len(pickles) == len(old(pickles)) + len(outline_flat(_i, scenario, inherited_tags, background_steps,
                                                                             uri, language))
                        and forall(len(old(pickles)), lambda j: pickles[j] == old(pickles)[j]),
                        serves=["C06", "C07", "C08", "C09", "C10", "C11"]),
                 clause("source", lambda pickles, _i, scenario, inherited_tags, background_steps, uri, language: forall(
                     len(outline_flat(_i, scenario, inherited_tags, background_steps, uri, language)),
                     lambda k: same_source(pickles[len(old(pickles)) + k], outline_flat(
                         _i, scenario, inherited_tags, background_steps, uri, language)[k])), serves=["C06", "C09", "C11"]),
                 clause("tags", lambda pickles, _i, scenario, inherited_tags, background_steps, uri, language: forall(
                     len(outline_flat(_i, scenario, inherited_tags, background_steps, uri, language)),
                     lambda k: same_tags(pickles[len(old(pickles)) + k], outline_flat(
                         _i, scenario, inherited_tags, background_steps, uri, language)[k])), serves=["C08"]),
                 clause("steps", lambda pickles, _i, scenario, inherited_tags, background_steps, uri, language: forall(
                     len(outline_flat(_i, scenario, inherited_tags, background_steps, uri, language)),
                     lambda k: same_steps(pickles[len(old(pickles)) + k], outline_flat(
                         _i, scenario, inherited_tags, background_steps, uri, language)[k])), serves=["C07", "C09", "C10"]),
                 clause("ids-advance", lambda self: self.id_generator._id_counter >= old(self.id_generator._id_counter),
                        serves=["C11"]),
             ], modifies=["self.id_generator", "pickles"]),
             1: loop(invariant=[
                 clause("count", lambda pickles, _i: len(pickles) == len(entry(pickles)) + _i
                        and forall(len(entry(pickles)), lambda j: pickles[j] == entry(pickles)[j]),
                        serves=["C06", "C07", "C08", "C09", "C10", "C11"]),
                 clause("source", lambda pickles, _i, _seq, examples, scenario, inherited_tags, background_steps, uri, language:
                        forall(_i, lambda r: same_source(pickles[len(entry(pickles)) + r], row_pickle(
                            examples, _seq[r], scenario, inherited_tags, background_steps, uri, language))),
                        serves=["C06", "C09", "C11"]),
                 clause("tags", lambda pickles, _i, _seq, examples, scenario, inherited_tags, background_steps, uri, language:
                        forall(_i, lambda r: same_tags(pickles[len(entry(pickles)) + r], row_pickle(
                            examples, _seq[r], scenario, inherited_tags, background_steps, uri, language))), serves=["C08"]),
                 clause("steps", lambda pickles, _i, _seq, examples, scenario, inherited_tags, background_steps, uri, language:
                        forall(_i, lambda r: same_steps(pickles[len(entry(pickles)) + r], row_pickle(
                            examples, _seq[r], scenario, inherited_tags, background_steps, uri, language))),
                        serves=["C07", "C09", "C10"]),
                 clause("ids-advance", lambda self: self.id_generator._id_counter >= old(self.id_generator._id_counter),
                        serves=["C11"]),
             ], modifies=["self.id_generator", "pickles"]),
             2: loop(invariant=[
                 clause("steps", lambda steps, _i, background_steps, scenario, variable_cells, values:
                        len(steps) == _i and forall(_i, lambda j: same_step(steps[j], outline_pstep(
                            scenario_steps(background_steps, scenario), len(background_steps), j, variable_cells, values))),
                        serves=["C07", "C09", "C10"]),
                 clause("type", lambda last_keyword_type, _i, background_steps, scenario:
                        last_keyword_type == eff_type(scenario_steps(background_steps, scenario), _i), serves=["C10"]),
                 clause("ids-advance", lambda self: self.id_generator._id_counter >= old(self.id_generator._id_counter),
                        serves=["C11"]),
             ], types=dict(steps=MutList("PickleStep")), modifies=["self.id_generator"]),
             3: loop(invariant=[
                 clause("steps", lambda steps, _i, background_steps, scenario, variable_cells, values:
                        len(steps) == len(background_steps) + _i and forall(len(background_steps) + _i, lambda j: same_step(
                            steps[j], outline_pstep(scenario_steps(background_steps, scenario), len(background_steps), j,
                                                    variable_cells, values))), serves=["C07", "C09", "C10"]),
                 clause("type", lambda last_keyword_type, _i, background_steps, scenario:
                        last_keyword_type == eff_type(scenario_steps(background_steps, scenario), len(background_steps) + _i),
                        serves=["C10"]),
                 clause("ids-advance", lambda self: self.id_generator._id_counter >= old(self.id_generator._id_counter),
                        serves=["C11"]),
             ], types=dict(steps=MutList("PickleStep")), modifies=["self.id_generator"]),
         })




# _compile_rule: the rule's scenarios in order, each with the feature background steps followed by the rule's own
# background steps seen so far; the feature-level list is not modified (the rule-level list is a new list).
contract("gherkin.pickles.compiler.Compiler._compile_rule",
         args=dict(self="Compiler", uri=Str, feature_tags=ListOf("Tag"), feature_background_steps=MutList("Step"),
                   rule="Rule", language=Str, pickles=MutList("Pickle")),
         requires=[clause("well-formed", lambda rule: rule_wf(rule))],
         returns=MutList("Pickle"),
         modifies=["pickles", "self.id_generator._id_counter"],
         ensures=[
             clause("same-list", lambda pickles, result: result is pickles, serves=["C06"]),
             clause("count", lambda pickles, rule, feature_tags, feature_background_steps, uri, language:
                    len(pickles) == len(old(pickles)) + len(rule_flat(rule, len(rule["children"]), feature_background_steps,
                                                                      feature_tags + rule["tags"], uri, language)[0])
                    and forall(len(old(pickles)), lambda j: pickles[j] == old(pickles)[j]),
                    serves=["C06", "C07", "C08", "C09", "C10", "C11"]),
             clause("source", lambda pickles, rule, feature_tags, feature_background_steps, uri, language: forall(
                 len(rule_flat(rule, len(rule["children"]), feature_background_steps, feature_tags + rule["tags"], uri, language)[0]),
                 lambda k: same_source(pickles[len(old(pickles)) + k], rule_flat(
                     rule, len(rule["children"]), feature_background_steps, feature_tags + rule["tags"], uri, language)[0][k])),
                 serves=["C06", "C09", "C11"]),
             clause("tags", lambda pickles, rule, feature_tags, feature_background_steps, uri, language: forall(
                 len(rule_flat(rule, len(rule["children"]), feature_background_steps, feature_tags + rule["tags"], uri, language)[0]),
                 lambda k: same_tags(pickles[len(old(pickles)) + k], rule_flat(
                     rule, len(rule["children"]), feature_background_steps, feature_tags + rule["tags"], uri, language)[0][k])),
                 serves=["C08"]),
             clause("steps", lambda pickles, rule, feature_tags, feature_background_steps, uri, language: forall(
                 len(rule_flat(rule, len(rule["children"]), feature_background_steps, feature_tags + rule["tags"], uri, language)[0]),
                 lambda k: same_steps(pickles[len(old(pickles)) + k], rule_flat(
                     rule, len(rule["children"]), feature_background_steps, feature_tags + rule["tags"], uri, language)[0][k])),
                 serves=["C06", "C07", "C09", "C10"]),
             clause("ids-advance", lambda self: self.id_generator._id_counter >= old(self.id_generator._id_counter), serves=["C11"]),
         ],
         loops={0: loop(invariant=[
             clause("count", lambda pickles, _i, rule, feature_tags, feature_background_steps, uri, language:
                    len(pickles) == len(old(pickles)) + len(rule_flat(rule, _i, feature_background_steps,
                                                                      feature_tags + rule["tags"], uri, language)[0])
                    and forall(len(old(pickles)), lambda j: pickles[j] == old(pickles)[j]),
                    serves=["C06", "C07", "C08", "C09", "C10", "C11"]),
             clause("scope", lambda background_steps, tags, _i, rule, feature_tags, feature_background_steps, uri, language:
                    background_steps == rule_flat(rule, _i, feature_background_steps, feature_tags + rule["tags"], uri,
                                                  language)[1]
                    and tags == feature_tags + rule["tags"], serves=["C06", "C07", "C08", "C09", "C10", "C11"]),
             clause("source", lambda pickles, _i, rule, feature_tags, feature_background_steps, uri, language: forall(
                 len(rule_flat(rule, _i, feature_background_steps, feature_tags + rule["tags"], uri, language)[0]),
                 lambda k: same_source(pickles[len(old(pickles)) + k], rule_flat(
                     rule, _i, feature_background_steps, feature_tags + rule["tags"], uri, language)[0][k])),
                 serves=["C06", "C09", "C11"]),
             clause("tags", lambda pickles, _i, rule, feature_tags, feature_background_steps, uri, language: forall(
                 len(rule_flat(rule, _i, feature_background_steps, feature_tags + rule["tags"], uri, language)[0]),
                 lambda k: same_tags(pickles[len(old(pickles)) + k], rule_flat(
                     rule, _i, feature_background_steps, feature_tags + rule["tags"], uri, language)[0][k])), serves=["C08"]),
             clause("steps", lambda pickles, _i, rule, feature_tags, feature_background_steps, uri, language: forall(
                 len(rule_flat(rule, _i, feature_background_steps, feature_tags + rule["tags"], uri, language)[0]),
                 lambda k: same_steps(pickles[len(old(pickles)) + k], rule_flat(
                     rule, _i, feature_background_steps, feature_tags + rule["tags"], uri, language)[0][k])),
                 serves=["C07", "C09", "C10"]),
             clause("ids-advance", lambda self: self.id_generator._id_counter >= old(self.id_generator._id_counter), serves=["C11"]),
         ], modifies=["self.id_generator", "pickles"])})

# compile: pickles of the whole document in document order; the document is not modified (frame: it is not listed).
contract("gherkin.pickles.compiler.Compiler.compile",
         args=dict(self="Compiler", gherkin_document="GherkinDocumentWithURI"),
         requires=[clause("well-formed", lambda gherkin_document: implies(
             "feature" in gherkin_document, feature_wf(gherkin_document["feature"])))],
         returns=MutList("Pickle"),
         modifies=["self.id_generator._id_counter"],
         ensures=[
             clause("no-feature", lambda gherkin_document, result: implies(
                 not ("feature" in gherkin_document), len(result) == 0), serves=["C06", "C01"]),
             clause("count", lambda gherkin_document, result: implies(
                 "feature" in gherkin_document,
                 len(result) == len(feature_flat(gherkin_document["feature"], len(gherkin_document["feature"]["children"]),
                                                 gherkin_document["uri"])[0])), serves=["C06", "C07", "C08", "C09", "C10", "C11"]),
             clause("source", lambda gherkin_document, result: implies("feature" in gherkin_document, forall(
                 len(feature_flat(gherkin_document["feature"], len(gherkin_document["feature"]["children"]),
                                  gherkin_document["uri"])[0]),
                 lambda k: same_source(result[k], feature_flat(
                     gherkin_document["feature"], len(gherkin_document["feature"]["children"]),
                     gherkin_document["uri"])[0][k]))), serves=["C06", "C09", "C11"]),
             clause("tags", lambda gherkin_document, result: implies("feature" in gherkin_document, forall(
                 len(feature_flat(gherkin_document["feature"], len(gherkin_document["feature"]["children"]),
                                  gherkin_document["uri"])[0]),
                 lambda k: same_tags(result[k], feature_flat(
                     gherkin_document["feature"], len(gherkin_document["feature"]["children"]),
                     gherkin_document["uri"])[0][k]))), serves=["C08"]),
             clause("steps", lambda gherkin_document, result: implies("feature" in gherkin_document, forall(
                 len(feature_flat(gherkin_document["feature"], len(gherkin_document["feature"]["children"]),
                                  gherkin_document["uri"])[0]),
                 lambda k: same_steps(result[k], feature_flat(
                     gherkin_document["feature"], len(gherkin_document["feature"]["children"]),
                     gherkin_document["uri"])[0][k]))), serves=["C06", "C07", "C09", "C10"]),
             clause("ids-advance", lambda self: self.id_generator._id_counter >= old(self.id_generator._id_counter), serves=["C11"]),
         ],
         loops={0: loop(invariant=[
             clause("count", lambda pickles, _i, gherkin_document:
                    len(pickles) == len(feature_flat(gherkin_document["feature"], _i, gherkin_document["uri"])[0]),
                    serves=["C06", "C07", "C08", "C09", "C10", "C11"]),
             clause("scope", lambda background_steps, _i, gherkin_document, uri, feature_tags, language, feature:
                    background_steps == feature_flat(gherkin_document["feature"], _i, gherkin_document["uri"])[1]
                    and uri == gherkin_document["uri"] and feature_tags == gherkin_document["feature"]["tags"]
                    and language == gherkin_document["feature"]["language"] and feature == gherkin_document["feature"],
                    serves=["C06", "C07", "C08", "C09", "C10", "C11"]),
             clause("source", lambda pickles, _i, gherkin_document: forall(
                 len(feature_flat(gherkin_document["feature"], _i, gherkin_document["uri"])[0]),
                 lambda k: same_source(pickles[k], feature_flat(gherkin_document["feature"], _i, gherkin_document["uri"])[0][k])),
                 serves=["C06", "C09", "C11"]),
             clause("tags", lambda pickles, _i, gherkin_document: forall(
                 len(feature_flat(gherkin_document["feature"], _i, gherkin_document["uri"])[0]),
                 lambda k: same_tags(pickles[k], feature_flat(gherkin_document["feature"], _i, gherkin_document["uri"])[0][k])),
                 serves=["C08"]),
             clause("steps", lambda pickles, _i, gherkin_document: forall(
                 len(feature_flat(gherkin_document["feature"], _i, gherkin_document["uri"])[0]),
                 lambda k: same_steps(pickles[k], feature_flat(gherkin_document["feature"], _i, gherkin_document["uri"])[0][k])),
                 serves=["C07", "C09", "C10"]),
             clause("ids-advance", lambda self: self.id_generator._id_counter >= old(self.id_generator._id_counter), serves=["C11"]),
         ], modifies=["self.id_generator", "pickles"])})
