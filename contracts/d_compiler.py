# Sidecar contracts for python/gherkin/pickles/compiler.py
from pyvc.dsl import *  # noqa

klass("IdGenerator", fields=dict(_id_counter=Int), record=False)
klass("Compiler", fields=dict(id_generator="IdGenerator"), record=False)

contract("gherkin.stream.id_generator.IdGenerator.get_next_id",
         args=dict(self="IdGenerator"), returns=Str,
         modifies=["self._id_counter"],
         ensures=[
             clause("id", lambda self, result: result == itos(old(self._id_counter)), serves=["C11"]),
             clause("next", lambda self: self._id_counter == old(self._id_counter) + 1, serves=["C11"]),
         ])

contract("gherkin.pickles.compiler.Compiler._pickle_tag", inline=True,
         args=dict(tag="Tag"), returns="PickleTag",
         result_is=lambda tag: pickle_tag(tag), serves=["C08", "C11"])

contract("gherkin.pickles.compiler.Compiler._pickle_tags",
         args=dict(self="Compiler", tags=ListOf("Tag")), returns=ListOf("PickleTag"),
         result_is=lambda tags: pickle_tags(tags), serves=["C08", "C11"])

contract("gherkin.pickles.compiler.is_background_container", inline=True, args=dict())
contract("gherkin.pickles.compiler.is_rule_container", inline=True, args=dict())
contract("gherkin.pickles.compiler.is_scenario_container", inline=True, args=dict())

# _interpolate: literal substitution, all occurrences, columns in header order; None stays None.
contract("gherkin.pickles.compiler.Compiler._interpolate",
         args=dict(self="Compiler", name=Str, variable_cells=ListOf("parser_types.Cell"), value_cells=ListOf("parser_types.Cell")),
         requires=[clause("rectangular", lambda variable_cells, value_cells: len(value_cells) >= len(variable_cells))],
         variants=[dict(name=Str), dict(name=NoneT)],
         returns=Opt(Str),
         result_is=lambda name, variable_cells, value_cells: (None if name is None
                                                               else interp(name, variable_cells, value_cells)),
         serves=["C09", "C01"],
         loops={0: loop(invariant=[clause("prefix", lambda name, variable_cells, value_cells, _i:
                                          name == interp_prefix(old(name), variable_cells, value_cells, _i),
                                          serves=["C09"])])})

contract("gherkin.pickles.compiler.Compiler._create_pickle_arguments",
         args=dict(self="Compiler", step="Step", variables=ListOf("parser_types.Cell"), values=ListOf("parser_types.Cell")),
         requires=[clause("rectangular", lambda variables, values: len(values) >= len(variables))],
         returns=Opt("PickleArgumentEnvelope"),
         result_is=lambda step, variables, values: spec_argument(step, variables, values),
         serves=["C07", "C09", "C01"],
         loops={0: loop(invariant=[clause("rows", lambda table, _i, _seq, variables, values:
                                          len(table["rows"]) == _i and forall(_i, lambda j: table["rows"][j] == arg_row(
                                              _seq[j], variables, values)), serves=["C07", "C09"])])})
