# Sidecar contracts for python/gherkin/errors.py
from pyvc.dsl import *  # noqa

klass("ParserException", fields=dict(location=MutDict("Location"), args=PyTuple(Str)), record=False)

contract("gherkin.errors.ParserException.__init__",
         args=dict(self=Raw("ParserException"), message=Str, location=MutDict("Location")),
         returns=NoneT,
         modifies=["self.*"],
         ensures=[
             clause("location", lambda self, location: self.location is location, serves=["C04", "C14", "C01"]),
             clause("message", lambda self, message, location: self.args[0] == error_message(
                 location["line"], (location["column"] if "column" in location else 0), message),
                 serves=["C14", "C04"]),
         ])

contract("gherkin.errors.NoSuchLanguageException.__init__",
         args=dict(self=Raw("NoSuchLanguageException"), language=Str, location=MutDict("Location")),
         returns=NoneT,
         modifies=["self.*"],
         ensures=[
             clause("location", lambda self, location: self.location is location, serves=["C04", "C14", "C05"]),
             clause("message", lambda self, language, location: self.args[0] == error_message(
                 location["line"], (location["column"] if "column" in location else 0),
                 "Language not supported: " + language), serves=["C14", "C05"]),
         ])

klass("CompositeParserException", fields=dict(errors=MutList(Val("ParserException")), args=PyTuple(Str)), record=False)

contract("gherkin.errors.CompositeParserException.__init__",
         args=dict(self=Raw("CompositeParserException"), errors=MutList(Val("ParserException"))),
         returns=NoneT,
         modifies=["self.*"],
         ensures=[
             clause("errors", lambda self, errors: self.errors is errors, serves=["C01", "C14"]),
             clause("message", lambda self, errors: self.args[0] == "Parser errors:\n" + join_lf([e.args[0] for e in errors]),
                    serves=["C14"]),
         ])
