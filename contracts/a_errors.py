# Sidecar contracts for python/gherkin/errors.py
from pyvc.dsl import *  # noqa

klass("ParserException", fields=dict(location=MutDict("Location"), args=PyTuple(Str)), record=False)

contract("gherkin.errors.ParserException.__init__",
         args=dict(self=Raw("ParserException"), message=Str, location=MutDict("Location")),
         returns=NoneT,
         modifies=["self.*"],
         ensures=[
             clause("location", lambda self, location: self.location is location, serves=["C04", "C14", "C01"]),
             clause("message", lambda self, message, location: self.args[0] == error_message(
                 location["line"], (location["column"] if "column" in location else 0), message),
                 serves=["C14", "C04"]),
         ])

contract("gherkin.errors.NoSuchLanguageException.__init__",
         args=dict(self=Raw("NoSuchLanguageException"), language=Str, location=MutDict("Location")),
         returns=NoneT,
         modifies=["self.*"],
         ensures=[
             clause("location", lambda self, location: self.location is location, serves=["C04", "C14", "C05"]),
             clause("message", lambda self, language, location: self.args[0] == error_message(
                 location["line"], (location["column"] if "column" in location else 0),
                 "Language not supported: " + language), serves=["C14", "C05"]),
         ])

klass("CompositeParserException", fields=dict(errors=MutList(Val("ParserException")), args=PyTuple(Str)), record=False)

contract("gherkin.errors.CompositeParserException.__init__",
         args=dict(self=Raw("CompositeParserException"), errors=MutList(Val("ParserException"))),
         returns=NoneT,
         modifies=["self.*"],
         ensures=[
             clause("errors", lambda self, errors: self.errors is errors, serves=["C01", "C14"]),
             clause("message", lambda self, errors: self.args[0] == "Parser errors:\n" + join_lf([e.args[0] for e in errors]),
                    serves=["C14"]),
         ])

contract("gherkin.token.Token.token_value",
         args=dict(self="Token"), variants=[dict(self="Token"), dict(self="TokenEOF")], returns=Str,
         ensures=[clause("value", lambda self, result: result == ("EOF" if is_eof_token(self) else self.line._trimmed_line_text),
                         serves=["C14", "C16"])])

# an unexpected line: "expected: <kinds joined by ', '>, got '<the line, trimmed on both sides>'" at the token's own
# column, or -- for a token that no matcher has located -- at the column of its first non-blank character
contract("gherkin.errors.UnexpectedTokenException.__init__",
         args=dict(self=Raw("UnexpectedTokenException"), received_token="Token", expected_token_types=ListOf(Str),
                   state_comment=Str),
         returns=NoneT, modifies=["self.*"],
         ensures=[
             clause("message", lambda self, received_token, expected_token_types: self.args[0] == error_message(
                 received_token.location["line"],
                 (received_token.location["column"] if ("column" in received_token.location
                                                        and received_token.location["column"] != 0)
                  else received_token.line.indent + 1),
                 "expected: " + join_sep(", ", expected_token_types) + ", got '"
                 + strip(received_token.line._trimmed_line_text) + "'"), serves=["C14", "C16", "C04"]),
             clause("line", lambda self, received_token: self.location["line"] == received_token.location["line"]
                    and "column" in self.location, serves=["C14", "C04"]),
         ])

contract("gherkin.errors.UnexpectedEOFException.__init__",
         args=dict(self=Raw("UnexpectedEOFException"), received_token="TokenEOF", expected_token_types=ListOf(Str),
                   state_comment=Str),
         returns=NoneT, modifies=["self.*"],
         ensures=[
             clause("message", lambda self, received_token, expected_token_types: self.args[0] == error_message(
                 received_token.location["line"],
                 (received_token.location["column"] if "column" in received_token.location else 0),
                 "unexpected end of file, expected: " + join_sep(", ", expected_token_types)), serves=["C14", "C04"]),
             clause("location", lambda self, received_token: self.location is received_token.location, serves=["C14", "C04"]),
         ])
