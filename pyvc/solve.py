"""Back ends: z3 (python API, in-process) first, cvc5 CLI for unknowns.  Results cached by SMT text."""
from __future__ import annotations

import hashlib
import json
import os
import subprocess
import tempfile
import time

import z3

CACHE_DIR = os.path.join(os.path.dirname(os.path.dirname(os.path.abspath(__file__))), ".cache")
Z3_TIMEOUT_MS = int(os.environ.get("PYVC_Z3_TIMEOUT_MS", "30000"))
CVC5_TIMEOUT_S = int(os.environ.get("PYVC_CVC5_TIMEOUT_S", "60"))
USE_CACHE = os.environ.get("PYVC_NO_CACHE", "0") != "1"

_quick = z3.Solver()


_quick_memo = {}


def quick_unsat(assertions, timeout_ms=300) -> bool:
    """Cheap infeasibility test used only for path pruning (an 'unknown' keeps the path)."""
    key = tuple(a.get_id() for a in assertions)
    if key in _quick_memo:
        return _quick_memo[key]
    s = z3.Solver()
    s.set("timeout", timeout_ms)
    s.add(*assertions)
    r = s.check() == z3.unsat
    _quick_memo[key] = r
    _quick_keep.append(assertions)      # keep the terms alive so that ids stay unique
    return r


_quick_keep = []


def _cache_get(key):
    if not USE_CACHE:
        return None
    p = os.path.join(CACHE_DIR, key[:2], key)
    if os.path.exists(p):
        try:
            with open(p) as f:
                return json.load(f)
        except Exception:
            return None
    return None


def _cache_put(key, val):
    if not USE_CACHE:
        return
    d = os.path.join(CACHE_DIR, key[:2])
    os.makedirs(d, exist_ok=True)
    tmp = os.path.join(d, key + ".tmp%d" % os.getpid())
    with open(tmp, "w") as f:
        json.dump(val, f)
    os.replace(tmp, os.path.join(d, key))


def run_cvc5(smt2: str, timeout_s=CVC5_TIMEOUT_S):
    with tempfile.NamedTemporaryFile("w", suffix=".smt2", delete=False, dir="/tmp") as f:
        f.write("(set-logic ALL)\n" + smt2)
        name = f.name
    try:
        p = subprocess.run(["/usr/bin/cvc5", "--strings-exp", "--tlimit=%d" % (timeout_s * 1000), name],
                           capture_output=True, text=True, timeout=timeout_s + 5)
        out = p.stdout.strip().splitlines()
        r = out[0] if out else "unknown"
        if r not in ("sat", "unsat"):
            r = "unknown"
        return r, (p.stdout + p.stderr)[:500]
    except subprocess.TimeoutExpired:
        return "unknown", "cvc5 timeout"
    finally:
        os.unlink(name)


import re as _re
_FRESH = _re.compile(r"(\|?)([A-Za-z_][A-Za-z_0-9.\[\]'\-]*?)((?:![0-9]+)+)(\|?)")


def normalise_fresh(smt2: str) -> str:
    """Alpha-rename the fresh constants (name!N, produced by z3.FreshConst in creation order) by order of first
    occurrence, so that the cache key does not depend on how many fresh names were drawn before this query."""
    table = {}
    # declarations are listed in an order that depends on the names: key on the assertions only
    smt2 = "\n".join(l for l in smt2.splitlines() if not l.startswith("(declare-fun "))

    def sub(m):
        full = m.group(2) + m.group(3)
        if full not in table:
            table[full] = f"{m.group(2)}!#{len(table)}"
        return m.group(1) + table[full] + m.group(4)
    return _FRESH.sub(sub, smt2)


def check(hyps, goal, want_model=True, both=False, timeout_ms=None, use_cvc5=True):
    """Decide hyps |= goal.  Returns dict(result= 'proved'|'refuted'|'unknown', backend, time_s, model, cached)."""
    s = z3.Solver()
    s.set("timeout", timeout_ms or Z3_TIMEOUT_MS)
    for h in hyps:
        s.add(h)
    s.add(z3.Not(goal))
    smt2 = s.to_smt2()
    key = hashlib.sha256((z3.get_version_string() + normalise_fresh(smt2)).encode()).hexdigest()
    c = _cache_get(key)
    if c is not None and not both:
        c["cached"] = True
        return c
    t0 = time.time()
    r = s.check()
    dt = time.time() - t0
    res = {"backend": "z3", "time_s": round(dt, 4), "cached": False, "model": None, "smt_size": len(smt2)}
    if r == z3.unsat:
        res["result"] = "proved"
    elif r == z3.sat:
        res["result"] = "refuted"
        if want_model:
            try:
                res["model"] = model_to_json(s.model())
            except Exception as e:  # pragma: no cover
                res["model"] = {"_error": str(e)}
    else:
        res["result"] = "unknown"
        res["reason"] = s.reason_unknown()
    if (res["result"] == "unknown" and use_cvc5) or both:
        t1 = time.time()
        r2, out = run_cvc5(smt2)
        res["cvc5"] = r2
        res["cvc5_time_s"] = round(time.time() - t1, 3)
        if res["result"] == "unknown":
            if r2 == "unsat":
                res["result"], res["backend"] = "proved", "cvc5"
            elif r2 == "sat":
                res["result"], res["backend"] = "refuted", "cvc5"
        elif both and r2 in ("sat", "unsat"):
            z = "unsat" if res["result"] == "proved" else "sat"
            if z != r2:
                res["result"] = "disagree"
    if res["result"] in ("proved", "refuted"):
        _cache_put(key, res)
    return res


def model_to_json(m):
    out = {}
    for d in m.decls():
        if d.arity() == 0:
            try:
                out[d.name()] = term_to_py(m[d])
            except Exception:
                out[d.name()] = str(m[d])
    return out


def term_to_py(t):
    """Concretise a z3 model value into python data (ints, bools, strings as code-point lists -> str, seqs, records)."""
    if z3.is_int_value(t):
        return t.as_long()
    if z3.is_true(t):
        return True
    if z3.is_false(t):
        return False
    if z3.is_seq(t):
        items = []

        def walk(x):
            k = x.decl().kind()
            if k == z3.Z3_OP_SEQ_EMPTY:
                return
            if k == z3.Z3_OP_SEQ_UNIT:
                items.append(term_to_py(x.arg(0)))
                return
            if k == z3.Z3_OP_SEQ_CONCAT:
                for c in x.children():
                    walk(c)
                return
            raise ValueError("non-concrete seq " + str(x))

        walk(t)
        if t.sort() == z3.SeqSort(z3.IntSort()):
            try:
                return "".join(chr(c) if 0 <= c <= 0x10FFFF else "�" for c in items)
            except Exception:
                return items
        return items
    if z3.is_app(t) and t.sort().kind() == z3.Z3_DATATYPE_SORT:
        d = t.decl()
        srt = t.sort()
        for ci in range(srt.num_constructors()):
            if srt.constructor(ci).name() == d.name():
                fields = {}
                for ai in range(d.arity()):
                    fields[srt.accessor(ci, ai).name()] = term_to_py(t.arg(ai))
                return {"_ctor": d.name(), **fields}
    return str(t)
