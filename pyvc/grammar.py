"""Reference transducer derived from gherkin.berp by an independent position-automaton (Glushkov-style)
construction.  Pure python (no z3): used by the verifier (pyvc/automaton.py) and, under the repository interpreter,
by the parser-trace stand-in (pyvc/enum_parser_traces.py)."""
from __future__ import annotations

import itertools
import re

# ---------------------------------------------------------------------------------------------
# C. reference transducer from gherkin.berp (own position-automaton construction)
# ---------------------------------------------------------------------------------------------
class GNode:
    def __init__(self, kind, **kw):
        self.kind = kind          # seq | alt | opt | star | plus | tok | rule
        self.children = kw.get("children", [])
        self.name = kw.get("name")        # rule name / token kind
        self.produces = kw.get("produces", False)
        self.hint = kw.get("hint")        # (skip kinds, expected kind)
        self.pos = None
        self.parent = None


def parse_berp(path):
    """Reader of the (small) .berp grammar format.  Returns (rules: name -> (produces, hint, expr-text), settings)."""
    with open(path, encoding="utf8") as f:
        text = f.read()
    header = re.search(r"\[(.*?)\]", text, re.S).group(1)
    settings = {}
    for line in header.splitlines():
        if "->" in line:
            k, v = line.split("->")
            settings[k.strip()] = [x.strip() for x in v.split(",")]
    body = text[text.index("]", text.index("[")) + 1:]
    rules = {}
    order = []
    for line in body.splitlines():
        line = line.split("//")[0].strip()
        if not line:
            continue
        m = re.fullmatch(r"(\w+)(!?)\s*(\[[^\]]*\])?\s*:=\s*(.*)", line)
        if not m:
            raise ValueError("cannot read grammar line: " + line)
        name, bang, hint, expr = m.groups()
        h = None
        if hint:
            skip, exp = hint.strip("[]").split("->")
            h = (tuple(x.strip().lstrip("#") for x in skip.split("|")), exp.strip().lstrip("#"))
        rules[name] = (bool(bang), h, expr.strip())
        order.append(name)
    return rules, settings, order


def _tokenize(expr):
    return re.findall(r"#\w+|\w+|[()|?*+]", expr)


def build_tree(rules, start):
    counter = itertools.count()
    positions = []

    def expand_rule(name):
        produces, hint, expr = rules[name]
        toks = _tokenize(expr)
        node, rest = parse_alt(toks)
        if rest:
            raise ValueError("trailing tokens in rule " + name)
        r = GNode("rule", name=name, produces=produces, hint=hint, children=[node])
        return r

    def parse_alt(toks):
        alts = []
        seq, toks = parse_seq(toks)
        alts.append(seq)
        while toks and toks[0] == "|":
            seq, toks = parse_seq(toks[1:])
            alts.append(seq)
        return (alts[0] if len(alts) == 1 else GNode("alt", children=alts)), toks

    def parse_seq(toks):
        items = []
        while toks and toks[0] not in (")", "|"):
            t = toks[0]
            toks = toks[1:]
            if t == "(":
                node, toks = parse_alt(toks)
                if not toks or toks[0] != ")":
                    raise ValueError("missing )")
                toks = toks[1:]
            elif t.startswith("#"):
                node = GNode("tok", name=t[1:])
                node.pos = next(counter)
                positions.append(node)
            else:
                node = expand_rule(t)
            while toks and toks[0] in "?*+":
                node = GNode({"?": "opt", "*": "star", "+": "plus"}[toks[0]], children=[node])
                toks = toks[1:]
            items.append(node)
        return (items[0] if len(items) == 1 else GNode("seq", children=items)), toks

    start_tok = GNode("tok", name="$START")
    start_tok.pos = next(counter)
    positions.append(start_tok)
    body = expand_rule(start)
    eof = GNode("tok", name="EOF")
    eof.pos = next(counter)
    positions.append(eof)
    # EOF is built inside GherkinDocument (parse() opens/closes that rule itself, outside the table)
    inner = body.children[0]
    body.children = [GNode("seq", children=[start_tok, inner, eof])]
    body.produces = False

    def link(n, parent):
        n.parent = parent
        for c in n.children:
            link(c, n)
    link(body, None)
    return body, positions


def glushkov(root):
    """nullable / first / last and follow edges (p, q, turning node), follow lists ordered nearest-first."""
    info = {}
    follow = {}

    def visit(n):
        for c in n.children:
            visit(c)
        k = n.kind
        if k == "tok":
            info[n] = (False, [n], [n])
        elif k == "rule":
            info[n] = info[n.children[0]]
        elif k == "alt":
            info[n] = (any(info[c][0] for c in n.children), sum((info[c][1] for c in n.children), []),
                       sum((info[c][2] for c in n.children), []))
        elif k == "opt":
            c = n.children[0]
            info[n] = (True, info[c][1], info[c][2])
        elif k in ("star", "plus"):
            c = n.children[0]
            for p in info[c][2]:
                for q in info[c][1]:
                    follow.setdefault(p, []).append((q, n))
            info[n] = (k == "star" or info[c][0], info[c][1], info[c][2])
        elif k == "seq":
            cs = n.children
            for i in range(len(cs)):
                for j in range(i + 1, len(cs)):
                    if all(info[cs[m]][0] for m in range(i + 1, j)):
                        for p in info[cs[i]][2]:
                            for q in info[cs[j]][1]:
                                follow.setdefault(p, []).append((q, n))
            first, last = [], []
            for i, c in enumerate(cs):
                if all(info[cs[m]][0] for m in range(i)):
                    first += info[c][1]
            for i, c in enumerate(cs):
                if all(info[cs[m]][0] for m in range(i + 1, len(cs))):
                    last += info[c][2]
            info[n] = (all(info[c][0] for c in cs), first, last)
    visit(root)
    return follow


def ancestors(n):
    out = []
    while n is not None:
        out.append(n)
        n = n.parent
    return out[::-1]          # root first


def depth(n):
    return len(ancestors(n))


class RefOption:
    def __init__(self, p, q, turn):
        self.q = q
        self.kind = q.name
        pa, qa = ancestors(p), ancestors(q)
        ti = pa.index(turn)
        self.events = tuple([("end", a.name) for a in reversed(pa[ti + 1:]) if a.kind == "rule" and a.produces]
                            + [("start", a.name) for a in qa[qa.index(turn) + 1:] if a.kind == "rule" and a.produces]
                            + [("build",)])
        hints = [a.hint for a in qa[qa.index(turn) + 1:] if a.kind == "rule" and a.hint]
        self.hint = None
        for h in hints:
            if q.name in h[0]:
                self.hint = h[1]        # the kind that must follow the run of skipped lines
        self.turn_depth = ti


class Reference:
    def __init__(self, berp_path):
        self.rules, self.settings, order = parse_berp(berp_path)
        self.ignored = [t.lstrip("#") for t in self.settings.get("IgnoredTokens", [])]
        self.root, self.positions = build_tree(self.rules, order[0])
        fol = glushkov(self.root)
        self.follow = {}
        for p in self.positions:
            opts = [RefOption(p, q, turn) for q, turn in fol.get(p, [])]
            # nearest first: deeper turning node first; stable otherwise (grammar order)
            opts.sort(key=lambda o: -o.turn_depth)
            self.follow[p.pos] = opts
        self.start = self.positions[0].pos

    def step(self, pos, kinds, oracle):
        """kinds: set of kinds the line has (without 'Other' for EOF).  Returns ('go', events, newpos) |
        ('ignored',) | ('error', expected-kinds)."""
        opts = self.follow[pos]
        cands = [o for o in opts if o.kind in kinds and o.kind != "Other"]
        # '# language' lines count as Language where that is expected, else as Comment
        if "Language" in kinds and any(o.kind == "Language" for o in cands):
            cands = [o for o in cands if o.kind == "Language"]
        eligible = [o for o in cands if o.hint is None or o.hint == oracle]
        if eligible:
            o = eligible[0]
            return ("go", o.events, o.q.pos)
        has_other = any(o.kind == "Other" for o in opts)
        if (kinds & set(self.ignored)) and not has_other:
            return ("ignored",)
        if has_other and "Other" in kinds:
            o = [o for o in opts if o.kind == "Other"][0]
            return ("go", o.events, o.q.pos)
        exp = []
        for o in opts:
            if o.kind not in exp:
                exp.append(o.kind)
        return ("error", tuple(exp))


LINE_KINDS = [
    ("EOF", frozenset(["EOF"])),
    ("Empty", frozenset(["Empty", "Other"])),
    ("Comment", frozenset(["Comment", "Other"])),
    ("Language", frozenset(["Language", "Comment", "Other"])),
    ("TagLine", frozenset(["TagLine", "Other"])),
    ("FeatureLine", frozenset(["FeatureLine", "Other"])),
    ("RuleLine", frozenset(["RuleLine", "Other"])),
    ("BackgroundLine", frozenset(["BackgroundLine", "Other"])),
    ("ScenarioLine", frozenset(["ScenarioLine", "Other"])),
    ("ExamplesLine", frozenset(["ExamplesLine", "Other"])),
    ("StepLine", frozenset(["StepLine", "Other"])),
    ("DocStringSeparator", frozenset(["DocStringSeparator", "Other"])),
    ("TableRow", frozenset(["TableRow", "Other"])),
    ("Other", frozenset(["Other"])),
]
ORACLES = [None, "ScenarioLine", "ExamplesLine"]


