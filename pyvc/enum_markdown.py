"""C19: the Markdown token matcher, line by line, on the real code -- complete enumeration of the property's own domain.

    all 80 dialects x all listed keywords x header depth 1..6 / bullet character x indentation (finite-exhaustive part),
    table indentation 0..8, separator rows, tag lines (bounded part: up to 3 tags, a fixed set of fillers).

The oracle is written from the property statement and MARKDOWN_WITH_GHERKIN.md, without regular expressions:
  header line   indent* '#'{1..6} blank keyword ':' title      -> role, keyword, strip(title), column indent+depth+2
  step line     indent* [*+-] blank* stepkeyword text          -> StepLine, keyword, strip(text), column of the keyword
  table row     2..5 blanks then '|'  and no cell of the form :?-+:?   -> TableRow with the cells of the plain reader
  tags          every `@word` (backtick, '@', one or more non-backtick characters, backtick), left to right,
                non-overlapping; column = 1-based code point column of the '@'
Lines lacking the prefix are not recognised in that role.

Run with the repository's interpreter:  VERIF_REPO=/repo /venv/bin/python pyvc/enum_markdown.py [--tier quick|thorough]
Prints one JSON object {"results": [...]}; exit code 0 always (the caller reads `ok`).
"""
import json
import os
import sys
import time
import unicodedata

REPO = os.environ.get("VERIF_REPO", "/repo")
sys.path.insert(0, os.path.join(REPO, "python"))

from gherkin.token_matcher_markdown import GherkinInMarkdownTokenMatcher  # noqa: E402
from gherkin.token import Token  # noqa: E402
from gherkin.gherkin_line import GherkinLine  # noqa: E402

ROLES = [("feature", "FeatureLine", "match_FeatureLine"), ("rule", "RuleLine", "match_RuleLine"),
         ("background", "BackgroundLine", "match_BackgroundLine"), ("scenario", "ScenarioLine", "match_ScenarioLine"),
         ("scenarioOutline", "ScenarioLine", "match_ScenarioLine"), ("examples", "ExamplesLine", "match_ExamplesLine")]
ROLE_LISTS = {"match_FeatureLine": ["feature"], "match_RuleLine": ["rule"], "match_BackgroundLine": ["background"],
              "match_ScenarioLine": ["scenario", "scenarioOutline"], "match_ExamplesLine": ["examples"]}
STEP_LISTS = ["given", "when", "then", "and", "but"]


def tok(text, n=3):
    return Token(GherkinLine(text, n), {"line": n})


def lead_ws(s):
    return len(s) - len(s.lstrip())


def first_listed(keywords, rest, suffix):
    for k in keywords:
        if rest.startswith(k + suffix):
            return k
    return None


def header_oracle(table, lang, method, line):
    """(keyword, text, column) if `line` is a header line of one of the method's roles, else None"""
    t = line.lstrip()
    ind = len(line) - len(t)
    d = 0
    while d < len(t) and t[d] == "#":
        d += 1
    if not (1 <= d <= 6) or d >= len(t) or not t[d].isspace() or t[d] == "\n":
        return None
    rest = t[d + 1:]
    kws = []
    for r in ROLE_LISTS[method]:
        kws += table[lang][r]
    k = first_listed(kws, rest, ":")
    if k is None:
        return None
    title = rest[len(k) + 1:]
    title = title.split("\n")[0]
    return k, title.strip(), ind + d + 2


def step_oracle(table, lang, line):
    t = line.lstrip()
    ind = len(line) - len(t)
    if not t or t[0] not in "*+-":
        return None
    p = 1
    cands = []
    # the blanks after the bullet belong to the prefix; a keyword may itself start after any number of them
    q = p
    while True:
        kws = []
        for r in STEP_LISTS:
            kws += table[lang][r]
        cands.append(q)
        if q < len(t) and t[q].isspace() and t[q] != "\n":
            q += 1
        else:
            break
    # the prefix is greedy: the longest run of blanks first, then shorter ones
    for q in reversed(cands):
        k = first_listed(kws, t[q:], "")
        if k is not None:
            text = t[q + len(k):].split("\n")[0]
            return k, text.strip(), ind + q + 1
    return None


def tag_oracle(line):
    t = line.lstrip()
    ind = len(line) - len(t)
    out = []
    i = 0
    while i < len(t):
        if t[i] == "`" and i + 1 < len(t) and t[i + 1] == "@":
            j = i + 2
            while j < len(t) and t[j] != "`":
                j += 1
            if j < len(t) and j > i + 2:
                out.append({"column": ind + i + 2, "text": t[i + 1:j]})
                i = j + 1
                continue
        i += 1
    return out


def is_sep_cell(x):
    y = x
    if y.startswith(":"):
        y = y[1:]
    if y.endswith(":"):
        y = y[:-1]
    return len(y) >= 1 and set(y) == {"-"}


def res(name, ok, size, detail=None, witness=None, bounded=False):
    return dict(name=name, ok=ok, size=size, detail=detail, witness=witness, bounded=bounded, exhaustive=not bounded)


def fields(t):
    return dict(type=t.matched_type, keyword=t.matched_keyword, text=t.matched_text, indent=t.matched_indent,
                column=t.location.get("column"), items=t.matched_items)


TITLES = ["", " x", " A title \t", " été <a> | `@t`", ":x"]
INDENTS = ["", " ", "   ", "\t "]


def check_headers(table, thorough):
    n = 0
    bad = []
    titles = TITLES if thorough else TITLES[:4]
    for lang in sorted(table):
        m = GherkinInMarkdownTokenMatcher(lang)
        for role, ttype, method in ROLES:
            for kw in table[lang][role]:
                for depth in range(1, 7):
                    for ind in INDENTS:
                        for title in titles:
                            line = ind + "#" * depth + " " + kw + ":" + title
                            want = header_oracle(table, lang, method, line)
                            t = tok(line)
                            m.matched_feature_line = False
                            got = getattr(m, method)(t)
                            n += 1
                            if want is None:
                                raise AssertionError("oracle rejects a generated header line: " + repr(line))
                            f = fields(t)
                            exp = dict(type=ttype, keyword=want[0], text=want[1], column=want[2])
                            if not got or any(f[k] != v for k, v in exp.items()):
                                bad.append({"lang": lang, "line": line, "method": method, "returned": got, "got": f, "want": exp})
                                if len(bad) > 3:
                                    return res("markdown::headers", False, n, str(bad[0]), bad)
                # lines lacking the header prefix, with 7 '#', or without the blank are not recognised in this role
                for kw in table[lang][role][:2]:
                    for line in (kw + ": x", "  " + kw + ": x", "#######" + " " + kw + ": x", "#" + kw + ": x",
                                 "x # " + kw + ": x", "- " + kw + ": x"):
                        t = tok(line)
                        m.matched_feature_line = False
                        got = getattr(m, method)(t)
                        n += 1
                        want = header_oracle(table, lang, method, line)
                        if bool(got) != (want is not None):
                            bad.append({"lang": lang, "line": line, "method": method, "returned": got, "want": want})
                # a decomposed (NFD) spelling is a different string: recognised only if it is itself listed
                for kw in table[lang][role]:
                    nfd = unicodedata.normalize("NFD", kw)
                    if nfd != kw:
                        line = "# " + nfd + ": x"
                        want = header_oracle(table, lang, method, line)
                        t = tok(line)
                        m.matched_feature_line = False
                        got = getattr(m, method)(t)
                        n += 1
                        if bool(got) != (want is not None):
                            bad.append({"lang": lang, "line": line, "method": method, "returned": got, "want": want,
                                        "note": "decomposed spelling of a keyword"})
        # a header line of one role is recognised by another role's method only if the oracle says so (shared keywords)
        for role, ttype, method in ROLES:
            kw = table[lang][role][0]
            line = "## " + kw + ": t"
            for _r2, _t2, method2 in ROLES:
                t = tok(line)
                m.matched_feature_line = False
                got = getattr(m, method2)(t)
                n += 1
                want = header_oracle(table, lang, method2, line)
                if bool(got) != (want is not None):
                    bad.append({"lang": lang, "line": line, "method": method2, "returned": got, "want": want})
        if bad:
            return res("markdown::headers", False, n, str(bad[0]), bad[:3])
    return res(f"markdown::headers[80 dialects x all title keywords x depth 1..6 x {len(INDENTS)} indentations x {len(titles)} titles; "
               f"prefix-less / 7-deep / blank-less / decomposed / cross-role lines]", True, n)


def check_steps(table, thorough):
    n = 0
    bad = []
    texts = ["x", " two words \t", "é <a>"] if thorough else ["x", " é w \t"]
    for lang in sorted(table):
        m = GherkinInMarkdownTokenMatcher(lang)
        kws = []
        for r in STEP_LISTS:
            for k in table[lang][r]:
                if k not in kws:
                    kws.append(k)
        for kw in kws:
            for bullet in "*+-":
                for ind in INDENTS:
                    for gap in (" ", "", "  "):
                        for text in texts:
                            line = ind + bullet + gap + kw + text
                            want = step_oracle(table, lang, line)
                            t = tok(line)
                            got = m.match_StepLine(t)
                            n += 1
                            if want is None:
                                raise AssertionError("oracle rejects a generated step line: " + repr(line))
                            f = fields(t)
                            exp = dict(type="StepLine", keyword=want[0], text=want[1], column=want[2])
                            if not got or any(f[k] != v for k, v in exp.items()):
                                bad.append({"lang": lang, "line": line, "returned": got, "got": f, "want": exp})
                                if len(bad) > 3:
                                    return res("markdown::steps", False, n, str(bad[0]), bad)
            if kw.strip() != "*":
                for line in (kw + "x", "  " + kw + "x", "# " + kw + "x", "x - " + kw + "x", "1. " + kw + "x"):
                    t = tok(line)
                    got = m.match_StepLine(t)
                    n += 1
                    want = step_oracle(table, lang, line)
                    if bool(got) != (want is not None):
                        bad.append({"lang": lang, "line": line, "returned": got, "want": want})
            nfd = unicodedata.normalize("NFD", kw)
            if nfd != kw:
                line = "- " + nfd + "x"
                want = step_oracle(table, lang, line)
                t = tok(line)
                got = m.match_StepLine(t)
                n += 1
                if bool(got) != (want is not None) or (got and t.matched_keyword != want[0]):
                    bad.append({"lang": lang, "line": line, "returned": got, "want": want, "note": "decomposed spelling"})
        if bad:
            return res("markdown::steps", False, n, str(bad[0]), bad[:3])
    return res(f"markdown::steps[80 dialects x all step keywords x bullets * + - x {len(INDENTS)} indentations x 3 gaps x {len(texts)} texts; "
               f"bullet-less / decomposed lines]", True, n)


def plain_cells(line):
    """cells of a row by the plain reader's documented rule (split at unescaped '|', unescape, trim blanks but LF)"""
    t = line.lstrip()
    ind = len(line) - len(t)
    cells = []
    cur = ""
    start = 1
    i = 0
    first = True
    col = 0
    while i < len(t):
        c = t[i]
        if c == "|":
            if first:
                first = False
            else:
                cells.append((cur, start))
            cur = ""
            start = i + 2
            i += 1
            continue
        if c == "\\" and i + 1 < len(t):
            nx = t[i + 1]
            if nx == "n":
                cur += "\n"
            elif nx in "|\\":
                cur += nx
            else:
                cur += c + nx
            i += 2
            continue
        cur += c
        i += 1
    out = []
    for raw, st in cells:
        def blank(ch):
            return ch.isspace() and ch != "\n"
        a = 0
        while a < len(raw) and blank(raw[a]):
            a += 1
        b = len(raw)
        while b > a and blank(raw[b - 1]):
            b -= 1
        out.append(raw[a:b])
    return out


def check_tables():
    n = 0
    bad = []
    m = GherkinInMarkdownTokenMatcher("en")
    rows = ["| a | b |", "|a|", "| é | \\| |", "| --- | x |", "| - |", "|:-:|--:|", "| :--- | b |", "| -- - |", "| a-b |",
            "| |", "|---", "| \U0001F600 | - x |"]
    for k in range(0, 9):
        for blank in (" ", "\t"):
            for row in rows:
                line = blank * k + row
                cells = plain_cells(line)
                sep = any(is_sep_cell(c) for c in cells)
                want_row = 2 <= k <= 5 and not sep
                t = tok(line)
                got = m.match_TableRow(t)
                n += 1
                if bool(got) != want_row:
                    bad.append({"line": line, "match_TableRow": got, "want": want_row})
                    continue
                if got:
                    f = fields(t)
                    texts = [i["text"] for i in f["items"]]
                    if f["type"] != "TableRow" or texts != cells or f["column"] != k + 1:
                        bad.append({"line": line, "got": f, "want_cells": cells, "want_column": k + 1})
                # a separator row is a comment line (ignored), whatever its indentation
                t2 = tok(line)
                try:
                    c = m.match_Comment(t2)
                except AttributeError:
                    # observation recorded in DESIGN.md (outside the listed properties): for a line that is not a
                    # separator row the Python port calls _set_token_matched(token, None, False) and fails on
                    # False.rstrip; such a line is in any case not recognised as a comment
                    c = False
                n += 1
                if sep and not c:
                    bad.append({"line": line, "match_Comment": c, "want": "separator rows are ignored"})
                if not sep and c:
                    bad.append({"line": line, "match_Comment": c, "want": "not a comment"})
    if bad:
        return res("markdown::tables", False, n, str(bad[0]), bad[:3])
    return res(f"markdown::tables[indentation 0..8 (blanks and tabs) x {len(rows)} rows incl. GFM separator rows]", True, n)


def check_tags(thorough):
    n = 0
    bad = []
    m = GherkinInMarkdownTokenMatcher("en")
    atoms = ["`@a`", "`@a`", "`@b c`", "`@`", "``", "@x", " ", "x", "\U0001F600", "`@é`", "`", "`@a"]
    maxlen = 4 if thorough else 3
    import itertools
    for ind in ("", "  ", "\t"):
        for k in range(0, maxlen + 1):
            for combo in itertools.product(range(len(atoms)), repeat=k):
                line = ind + "".join(atoms[i] for i in combo)
                want = tag_oracle(line)
                t = tok(line)
                got = m.match_TagLine(t)
                n += 1
                if bool(got) != bool(want):
                    bad.append({"line": line, "returned": got, "want": want})
                elif got:
                    f = fields(t)
                    if f["type"] != "TagLine" or [dict(i) for i in f["items"]] != want:
                        bad.append({"line": line, "got": f["items"], "want": want})
                    else:
                        for it in want:
                            if line[it["column"] - 1] != "@" or not line[it["column"] - 1:].startswith(it["text"]):
                                bad.append({"line": line, "item": it, "problem": "source at the column is not the tag"})
                if len(bad) > 3:
                    return res("markdown::tags", False, n, str(bad[0]), bad[:3], bounded=True)
    if bad:
        return res("markdown::tags", False, n, str(bad[0]), bad[:3], bounded=True)
    return res(f"markdown::tags[3 indentations x all sequences of up to {maxlen} of {len(atoms)} atoms (tags, duplicates, empty/unterminated quotes, wide characters)]",
               True, n, bounded=True)


def main():
    thorough = "thorough" in sys.argv
    t0 = time.time()
    with open(os.path.join(REPO, "python", "gherkin", "gherkin-languages.json"), encoding="utf8") as f:
        table = json.load(f)
    results = []
    for fn, args in ((check_headers, (table, thorough)), (check_steps, (table, thorough)), (check_tables, ()),
                     (check_tags, (thorough,))):
        try:
            results.append(fn(*args))
        except Exception as e:
            import traceback
            results.append(dict(res("markdown::" + fn.__name__, False, 0, f"{type(e).__name__}: {e}",
                                    [{"traceback": traceback.format_exc()[-900:]}]), checker_error=isinstance(e, AssertionError)))
    print(json.dumps({"results": results, "wall_s": round(time.time() - t0, 2)}, ensure_ascii=False, default=str))


if __name__ == "__main__":
    main()
