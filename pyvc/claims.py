"""Per-property claim table: the level each check claims, what decides it, and what is left to argument.
Used by finite.level_of / finite.explanation (evidence files) and tools/gen_manifest.py (MANIFEST.json).

Legend:  P = SMT obligation generated from the real source by PyVC and discharged by z3/cvc5 (unbounded)
         F = complete enumeration of a space that is finite by nature (automaton table, dialect table, corpus)
         B = bounded stand-in on the real code under CPython (never counted as discharged)
         M = composition argument written in DESIGN.md, not machine-checked
A property is claimed at level `proof` only where its statement is the postcondition of contracts discharged by P/F
obligations alone (callers checked against callee contracts up to the top-level function).  Where the statement spans
layers whose composition is M, the level is `other` and the explanation says exactly which part is which.
"""

TECH = ("contract-based deductive verification of the real source: sidecar contracts (pre/post, loop invariants, frames, "
        "ghost views) + own ast->VC generator (PyVC) re-reading /repo on every run, discharged by z3 5.1 (cvc5 for "
        "unknowns); finite-by-nature spaces enumerated completely; bounded stand-ins on the real code labelled bounded, "
        "never counted")

COMMON_NOTE = ("trusted: PyVC (the VC generator) and the semantics it gives the Python subset, z3/cvc5, the axioms about "
               "CPython str/re/io listed in the evidence (validated on a bounded domain by pyvc/axiom_check.py)")

CLAIMS = {
    "C01": dict(
        level="other", ref="DESIGN.md 5 C01",
        text="Function-level totality: every function under contract (33 serving C01: parser loop, look-ahead, error "
             "collection, table splitting, cell-count check, compiler, stream) is proved to raise only its declared "
             "exceptions (implicit IndexError/KeyError/TypeError/AttributeError sites are safety obligations), parse is "
             "proved to return a document or raise the composite/single parser error with 1..11 located errors, the "
             "loops have proved variants; each of the 42 state functions is loop-free and calls at most 16 matchers (F). "
             "One obligation is a listed known finding (D5: a source text naming an existing path is opened as a file). "
             "Linear growth of matching work and absence of other exception types across the layer boundaries not under "
             "contract (AstBuilder/AstNode glue) are checked only by the bounded document harness.",
        note=COMMON_NOTE + "; termination of re/io calls; glue code of ast_builder.py/ast_node.py outside transform_node is not under contract"),
    "C02": dict(
        level="proof", ref="DESIGN.md 5 C02",
        text="Each of the 42 generated state functions is symbolically executed on the real source (loop-free, all "
             "matcher and look-ahead outcomes, EOF / non-EOF token, both error modes: a complete analysis), and so is "
             "the dispatcher match_token for every state value (it calls that state's function and nothing else); the "
             "resulting table is compared transition by transition with the five sibling parsers and shown bisimilar "
             "(accepted language, emitted rule nesting, tag attachment by look-ahead) to a transducer derived from "
             "gherkin.berp; lookahead_k and parse are proved against contracts with loop invariants and variants; the "
             "matcher's recognition conditions per line kind are proved (Layer A).",
        note=COMMON_NOTE + "; textual readers of the sibling parsers and of the .berp format; the reference construction"),
    "C03": dict(
        level="other", ref="DESIGN.md 5 C03",
        text="Per-function content clauses are proved: scanner.read delivers line k as token k; every match_* sets "
             "keyword/text/items exactly as the statement says (keyword as listed, remainder trimmed); transform_node "
             "is proved per rule type to build the node from its tokens and children in order (steps, rows, cells, "
             "tags, doc string, description = non-comment lines with trailing blank lines dropped). Each token is "
             "built exactly once in order (C18, proved). The assembly of AstNode trees by build/start_rule/end_rule "
             "(glue) and the whole-document statement 'every element once, under the right parent' are decided only "
             "by F (acceptance corpus ASTs) and the bounded document harness against an independent document model.",
        note=COMMON_NOTE + "; AstBuilder.build/start_rule/end_rule and AstNode accessors are not under contract (M + B)"),
    "C04": dict(
        level="other", ref="DESIGN.md 5 C04",
        text="Line and column arithmetic is proved function by function: read gives location.line = k for the k-th "
             "segment; _set_token_matched gives column = indent+1; table_cells proves column = indent + offset + "
             "leading blanks and that the source at that column is the first non-blank cell character (or the closing "
             "bar); get_location overrides the column; every transform_node copies the location of its first token; "
             "error constructors format (line:column). GherkinLine.tags (tag columns) is outside the generator's "
             "reach (regex split on a symbolic string) and is decided by a bounded stand-in only; the end-to-end "
             "'slice the source at each reported location' statement is checked by the bounded document harness.",
        note=COMMON_NOTE + "; GherkinLine.tags bounded only"),
    "C05": dict(
        level="other", ref="DESIGN.md 5 C05",
        text="The generic keyword loops are proved for an arbitrary dialect table: _match_title_line / match_StepLine "
             "recognise a line iff a listed keyword (+':') prefixes it and report the first listed one, keyword type "
             "from the category map, match_Language recognises the header pattern and switches or raises "
             "NoSuchLanguageException with the column. The dialect-dependent facts are finite and enumerated "
             "completely on the real code: all 80 dialects x 1749 keywords x role as default dialect and via header, "
             "keyword-type map, foreign keywords, packaged table byte-identical to the master table. "
             "_change_dialect's map-building loops are decided by that enumeration, not by proof.",
        note=COMMON_NOTE + "; _change_dialect bounded/enumerated only; Dialect.for_name trusted"),
    "C06": dict(
        level="proof", ref="DESIGN.md 5 C06",
        text="compile, _compile_rule, _compile_scenario and _compile_scenario_outline are proved (loop invariants "
             "against fold specifications) to emit exactly the pickles of the reference composition in document order: "
             "one per plain scenario, one per body row of each examples table with a header, with uri, language, name "
             "and source ids.",
        note=COMMON_NOTE + "; well-formedness of the AST (rectangular tables, one key per child envelope) is a precondition established by the builder contracts"),
    "C07": dict(
        level="proof", ref="DESIGN.md 5 C07",
        text="Pickle steps are proved to be feature background steps, rule background steps, then own steps (none when "
             "the scenario has no steps), arguments copied cell by cell; the rule-level list is proved to be a new "
             "list (frame obligation on the feature-level list).",
        note=COMMON_NOTE),
    "C08": dict(
        level="proof", ref="DESIGN.md 5 C08",
        text="Pickle tags are proved to be feature + rule + scenario (+ examples) tags in order, each (astNodeId, "
             "name); get_tags is proved to collect the tag items of the Tags node in order with their ids.",
        note=COMMON_NOTE),
    "C09": dict(
        level="proof", ref="DESIGN.md 5 C09",
        text="_interpolate is proved equal to the fold of literal replace_all over the header columns; every call site "
             "(name, step text, cells, doc string content and media type) and the absence of substitution for "
             "background steps are part of the proved outline contract.",
        note=COMMON_NOTE + "; str.replace is literal, leftmost, non-overlapping replacement (uninterpreted replace_all with validated laws)"),
    "C10": dict(
        level="proof", ref="DESIGN.md 5 C10",
        text="The effective-type fold (and/but inherit, first is Unknown) is proved for plain scenarios and outlines "
             "with the same specification function; the type field is a string in every constructed pickle step; "
             "match_StepLine is proved to take the keyword type from the category map (Unknown when listed twice).",
        note=COMMON_NOTE),
    "C11": dict(
        level="other", ref="DESIGN.md 5 C11",
        text="Per function, the ghost id counter is proved to advance by exactly the number of ids drawn, each id "
             "being itos(counter) at a fixed position of the canonical order (rows, steps, examples, tags, then the "
             "owning node in transform_node; pickle steps before their pickle in the compiler), and every astNodeId(s) "
             "is proved to be the id field of the AST node named by the statement. Global uniqueness/density over a "
             "whole document and over a stream follows by composition over the call tree (M: itos injective, counter "
             "monotone); it is additionally checked by the bounded document/stream harness.",
        note=COMMON_NOTE + "; composition over the document tree is M"),
    "C12": dict(
        level="proof", ref="DESIGN.md 5 C12",
        text="split_table_cells is proved equal to the escape transducer (fold specification) for all rows by a loop "
             "invariant; table_cells is proved to trim blanks-not-LF around each cell and to report the column of the "
             "first non-blank character; ensure_cell_count / get_table_rows are proved to raise the inconsistent-cell-"
             "count error at the first deviating row.",
        note=COMMON_NOTE + "; regex-shape and strip axioms"),
    "C13": dict(
        level="other", ref="DESIGN.md 5 C13",
        text="The doc string machine of the matcher is proved: opening with either delimiter records separator and "
             "indent, closing only with the active one, match_Other removes at most the opening indent and unescapes "
             "only the active delimiter, no other match_* writes the two state fields (frames); inside doc string "
             "states the generated parser tests only the separator and Other (F over the extracted table); "
             "transform_node#DocString is proved to join the content lines and to omit an empty media type. The "
             "delivery of the content tokens to the DocString node is builder glue (M + bounded document harness).",
        note=COMMON_NOTE),
    "C14": dict(
        level="other", ref="DESIGN.md 5 C14",
        text="Proved: error constructors incl. UnexpectedToken/UnexpectedEOF (message = '(line:column): ' + text, expected "
             "list joined by ', ', the line quoted trimmed on both sides, location fallbacks), add_error (duplicates once, cap at eleven), parse (rejected => composite "
             "error / first error in stop mode, never a result), tag-with-whitespace and unknown-dialect errors with "
             "their columns, ragged-table error at the first deviating row. F: per state the error tail keeps the "
             "state, stop mode raises what collecting adds, the 42 expected lists equal those of the five sibling "
             "parsers, 'bad' corpus error listings. 'Rejected exactly when ...' as a whole-document equivalence is M "
             "over C02 + these clauses, with the bounded trace/document harness.",
        note=COMMON_NOTE + "; GherkinLine.tags bounded only"),
    "C15": dict(
        level="other", ref="DESIGN.md 5 C15",
        text="Proved: reset restores the matcher's default dialect, indent and separator, AstBuilder.reset empties "
             "comments and counter; the frame obligations (cells not listed in `modifies` are unchanged) of all 100 "
             "functions under contract are discharged by this check, in particular compile and its helpers do not "
             "modify the document, the rule-level background list is a new list, and GherkinEvents.enum keeps its "
             "parser, compiler and options objects; parse begins with reset of builder and matcher. Independence from earlier and interleaved parses is then a non-interference "
             "argument (M: no module-level mutable state except the dialect table, which is never written -- checked "
             "by an AST scan) and is exercised by the bounded history/interleaving harness.",
        note=COMMON_NOTE + "; interleavings are M + bounded"),
    "C16": dict(
        level="other", ref="DESIGN.md 5 C16",
        text="Proved per line: matched text loses trailing CR/LF only; keyword, title and step text are computed from "
             "the left-trimmed line and trimmed again, so trailing blanks and CRLF do not reach them; indentation only "
             "enters columns; Empty/Comment recognition; the scanner splits at line feeds only; source_event reads "
             "the file without newline translation. The relational statement (pairs of documents) is the "
             "composition of these clauses with C02/C18 (M) and is checked by the bounded layout/insertion harness.",
        note=COMMON_NOTE + "; relational composition is M + bounded"),
    "C17": dict(
        level="other", ref="DESIGN.md 5 C17",
        text="GherkinEvents.enum is proved, for all 8 option valuations, to yield source, gherkinDocument (with uri), "
             "pickles in this order gated by the options for an accepted source, and exactly one parseError envelope "
             "(uri, location, message) per error for a rejected one -- relative to ghost functions for the parse and "
             "compile outcomes; source_event is proved to carry uri, unchanged text and media type; the message shapes "
             "are the record types the transform_node / compiler contracts are proved against (absent optional keys "
             "omitted). F: the event streams of the acceptance corpus. Sequencing over several sources and JSON "
             "serialisability are bounded (stream harness).",
        note=COMMON_NOTE + "; parse/compile outcomes enter enum's contract as ghost functions (their contracts are Layers B-D)"),
    "C18": dict(
        level="proof", ref="DESIGN.md 5 C18",
        text="scanner.read (k-th call = k-th line, then EOF for ever), read_token, lookahead_k (queue/stream "
             "preservation, run shape, termination) and parse (every line token handed to match_token once in order, "
             "then one EOF; accepted documents deliver exactly these to the builder) are proved; each state function "
             "path builds the token exactly once or reports it (finite-exhaustive over the extracted table); "
             "_format_token is proved against the listing format; token listings equal the reference listings of the "
             "corpus.",
        note=COMMON_NOTE + "; match_token's abstract contract is justified by the automaton obligations; readline axiom (T-io)"),
    "C19": dict(
        level="other", ref="DESIGN.md 5 C19",
        text="Proved (61 obligations): every Markdown match_* passes exactly the header prefix '#{1,6} blank' / the "
             "bullet prefix, the keyword list(s) of its role (scenario before outline; given+when+then+and+but in this "
             "order), the suffix and the token type to the title-line core and reports its keyword, text and column; the "
             "feature-line flag; a table row is recognised iff the line starts with 2..5 white-space characters then '|' "
             "and is not a separator row, its items being the plain reader's cells; doc strings open with triple quotes, "
             "four or three backticks and close only with their own delimiter; match_Language never matches; reset. "
             "The regular-expression core -- _match_title_line (alternation of escaped keywords built at run time), "
             "match_TagLine (re.finditer), _is_gfm_table_separator -- is outside the VC generator's subset: it carries "
             "contracts over ghost functions and is pinned by complete enumeration on the real code against a regex-free "
             "oracle: 80 dialects x all title keywords x depth 1..6 (and 7) x indentations x titles, all step keywords x "
             "3 bullets x gaps, prefix-less / decomposed-spelling / cross-role negatives, table indentation 0..8 with "
             "separator rows (134 k lines); tag lines are bounded (all sequences of up to 3-4 atoms).",
        note=COMMON_NOTE + "; the oracle in pyvc/enum_markdown.py; indentation and title text of the enumeration are sampled; "
             "match_Comment / match_Empty of the Markdown matcher are not under contract (they raise AttributeError, see DESIGN 0.7)"),
}
