"""Symbolic semantics of the python builtins and str / list / re operations used by the code under contract,
plus the spec builtins of the contract language.  Every axiom used here is a *trusted* statement about
CPython (T in DESIGN.md); pyvc/axiom_check.py validates each one against CPython on a bounded domain
on every run.
"""
from __future__ import annotations

import ast
import re as _re

import z3

from .sym import (EngineUnsupported, VInt, VBool, VStr, VNone, VSeq, VTuple, VRec, VOpt, VRef, VFunc, VClass,
                  VBuiltin, VPy, Val, ListCell, DictCell, ObjCell, IterCell, TInt, TBool, TStr, TSeq, TOpt, TTuple,
                  TRec, Ty, T_INT, T_BOOL, T_STR, STR, INT, BOOL, mk_str, ival, fresh, fresh_val, to_term,
                  from_term, ty_of_val, concrete_str, is_space, is_blank_not_lf)
from .executor import Raised, Outcome

# --------------------------------------------------------------------------------------------
# character classes and maximal runs
# --------------------------------------------------------------------------------------------
CLASSES = {
    "WS": is_space,
    "BLANK": is_blank_not_lf,
    "CRLF": lambda c: z3.Or(c == 13, c == 10),
}


def class_pred(cls):
    if cls in CLASSES:
        return CLASSES[cls]
    if cls.startswith("SET:"):
        cps = [int(x) for x in cls[4:].split(",") if x]
        return lambda c: z3.Or(*[c == k for k in cps]) if cps else z3.BoolVal(False)
    raise EngineUnsupported("unknown character class " + cls)


_LEAD = {}
_TRAIL = {}


class RunFact:
    """forall j. lo <= j < hi ==> P(s[j])  (instantiated at the index terms of a query)"""

    def __init__(self, s, lo, hi, pred, label):
        self.s, self.lo, self.hi, self.pred, self.label = s, lo, hi, pred, label

    def instance(self, j):
        return z3.Implies(z3.And(j >= self.lo, j < self.hi), self.pred(self.s[j]))


def lead(reg, st, s, cls):
    """length of the maximal prefix of s made of class-cls characters"""
    f = _LEAD.setdefault(cls, z3.Function("lead_" + cls.replace(":", "_").replace(",", "_"), STR, INT))
    L = f(s)
    p = class_pred(cls)
    n = z3.Length(s)
    key = ("lead", cls, s.get_id())
    if key not in st.ghost.setdefault("$ax", set()):
        st.ghost["$ax"] = set(st.ghost["$ax"]) | {key}
        st.assume(z3.And(L >= 0, L <= n), "ax:lead-range")
        st.assume(z3.Implies(L < n, z3.Not(p(s[L]))), "ax:lead-stop")
        reg.qfacts.append(RunFact(s, ival(0), L, p, "ax:lead-all"))
    return L


def trail(reg, st, s, cls):
    """start index of the maximal suffix of s made of class-cls characters"""
    f = _TRAIL.setdefault(cls, z3.Function("trail_" + cls.replace(":", "_").replace(",", "_"), STR, INT))
    T = f(s)
    p = class_pred(cls)
    n = z3.Length(s)
    key = ("trail", cls, s.get_id())
    if key not in st.ghost.setdefault("$ax", set()):
        st.ghost["$ax"] = set(st.ghost["$ax"]) | {key}
        st.assume(z3.And(T >= 0, T <= n), "ax:trail-range")
        st.assume(z3.Implies(T > 0, z3.Not(p(s[T - 1]))), "ax:trail-stop")
        reg.qfacts.append(RunFact(s, T, n, p, "ax:trail-all"))
    return T


def sub(s, a, b):
    """s[a:b] for 0 <= a <= b <= len(s)"""
    return z3.SubSeq(s, a, b - a)


def lstrip_t(reg, st, s, cls="WS"):
    L = lead(reg, st, s, cls)
    return z3.SubSeq(s, L, z3.Length(s) - L)


def rstrip_t(reg, st, s, cls="WS"):
    T = trail(reg, st, s, cls)
    return z3.SubSeq(s, ival(0), T)


def strip_t(reg, st, s, cls="WS"):
    return rstrip_t(reg, st, lstrip_t(reg, st, s, cls), cls)


class RevFact:
    """rev(s)[j] == s[len(s)-1-j]"""

    def __init__(self, r, s):
        self.mt, self.seq, self.s = r, s, s
        self.label = "ax:reverse"

    def instance(self, j):
        n = z3.Length(self.seq)
        return z3.Implies(z3.And(j >= 0, j < n), self.mt[j] == self.seq[n - 1 - j])


def seq_rev(reg, st, t):
    f = uf("seq_rev_" + str(t.sort()).replace(" ", "_").replace("(", "").replace(")", ""), t.sort(), t.sort())
    r = f(t)
    st.assume(z3.Length(r) == z3.Length(t), "ax:reverse-len")
    reg.qfacts.append(RevFact(r, t))
    return r


_UF = {}


def uf(name, *sorts):
    k = (name,) + tuple(str(s) for s in sorts)
    if k not in _UF:
        _UF[k] = z3.Function(name, *sorts)
    return _UF[k]


def prefix_term(st, p, s):
    """s.startswith(p).  For a constant prefix the theory predicate is used; for a symbolic prefix an uninterpreted
    predicate with its defining consequence (the sequence solver is incomplete on negated symbolic prefixes -- measured)."""
    if concrete_str(p) is not None:
        return z3.PrefixOf(p, s)
    f = uf("prefix_of", STR, STR, BOOL)
    t = f(p, s)
    st.assume(z3.Implies(t, z3.And(z3.Length(p) <= z3.Length(s), z3.SubSeq(s, ival(0), z3.Length(p)) == p)),
              "ax:prefix-def")
    return t


def itos(st, n):
    f = uf("itos", INT, STR)
    g = uf("stoi", STR, INT)
    t = f(n)
    st.assume(g(t) == n, "ax:itos-injective")
    st.assume(z3.Length(t) > 0, "ax:itos-nonempty")
    return t


def replace_all(st, s, old, new):
    f = uf("replace_all", STR, STR, STR, STR)
    t = f(s, old, new)
    st.assume(z3.Implies(z3.Not(z3.Contains(s, old)), t == s), "ax:replace-identity")
    st.assume(z3.Implies(z3.Length(s) == 0, z3.If(z3.Length(old) == 0, t == new, t == s)), "ax:replace-empty")
    return t


def join(st, sep, seq):
    f = uf("join", STR, z3.SeqSort(STR), STR)
    t = f(sep, seq)
    st.assume(z3.Implies(z3.Length(seq) == 0, t == z3.Empty(STR)), "ax:join-empty")
    st.assume(z3.Implies(z3.Length(seq) == 1, t == seq[0]), "ax:join-one")
    return t


# --------------------------------------------------------------------------------------------
# regular expression shapes
# --------------------------------------------------------------------------------------------
def regex_class_of(items):
    """Translate an sre IN-item list to a class name of CLASSES or a SET:, or None."""
    from re import _parser as P
    from re import _constants as C
    neg = False
    its = list(items)
    if its and its[0][0] == C.NEGATE:
        neg = True
        its = its[1:]
    cats, lits = [], []
    for op, av in its:
        if op == C.CATEGORY:
            cats.append(av)
        elif op == C.LITERAL:
            lits.append(av)
        else:
            return None
    # [^\S\n] : NOT(non-space or LF) == space and not LF
    if neg and cats == [C.CATEGORY_NOT_SPACE]:
        if lits == [10]:
            return "BLANK"
        if all(not chr(c).isspace() for c in lits):
            return "WS"     # e.g. [^\S+] : '+' is not whitespace, so the class is exactly isspace
        return None
    if not neg and cats == [C.CATEGORY_SPACE] and not lits:
        return "WS"
    if not neg and not cats:
        return "SET:" + ",".join(str(c) for c in sorted(lits))
    return None


def parse_regex_shape(pattern: str, flags=0):
    """Return a shape descriptor for the supported regex literals, else None."""
    from re import _parser as P
    from re import _constants as C
    try:
        tree = list(P.parse(pattern, flags))
    except Exception:
        return None

    def cls_of(node):
        op, av = node
        if op == C.IN:
            return regex_class_of(av)
        if op == C.CATEGORY and av == C.CATEGORY_SPACE:
            return "WS"
        if op == C.LITERAL:
            return "SET:%d" % av
        return None

    def star(node):
        op, av = node
        if op == C.MAX_REPEAT and av[0] == 0 and av[1] == C.MAXREPEAT and len(av[2]) == 1:
            return cls_of(av[2][0])
        return None

    # ^C*
    if len(tree) == 2 and tree[0] == (C.AT, C.AT_BEGINNING) and star(tree[1]):
        return ("lead", star(tree[1]))
    # C*$  /  C*\Z
    if len(tree) == 2 and star(tree[0]) and tree[1][0] == C.AT:
        if tree[1][1] == C.AT_END:
            return ("trail_dollar", star(tree[0]))
        if tree[1][1] == C.AT_END_STRING:
            return ("trail", star(tree[0]))
    # single class  (re.search)
    if len(tree) == 1 and cls_of(tree[0]):
        return ("has", cls_of(tree[0]))
    # ^ C{k} C?{m} lit   (re.match): between k and k+m class characters, then a literal outside the class
    if len(tree) >= 3 and tree[0] == (C.AT, C.AT_BEGINNING) and tree[-1][0] == C.LITERAL:
        body = tree[1:-1]
        k = m = 0
        cls = None
        okk = True
        for node in body:
            c1 = cls_of(node)
            if c1 is not None and m == 0:
                k += 1
            elif node[0] == C.MAX_REPEAT and node[1][0] == 0 and node[1][1] == 1 and len(node[1][2]) == 1 \
                    and cls_of(node[1][2][0]) is not None:
                c1 = cls_of(node[1][2][0])
                m += 1
            else:
                okk = False
                break
            if cls is None:
                cls = c1
            elif cls != c1:
                okk = False
                break
        lit = tree[-1][1]
        if okk and cls in ("WS", "BLANK") and k + m > 0 and not chr(lit).isspace():
            return ("lead_range", cls, k, k + m, lit)
    # two consecutive classes (re.split(r"\s#"))
    if len(tree) == 2 and cls_of(tree[0]) and cls_of(tree[1]):
        return ("pair", cls_of(tree[0]), cls_of(tree[1]))
    return None


def first_pair(reg, st, s, c1, c2):
    """index of the first j with c1(s[j]) and c2(s[j+1]), or -1."""
    f = uf("first_pair_" + (c1 + "_" + c2).replace(":", "").replace(",", "_"), STR, INT)
    p1, p2 = class_pred(c1), class_pred(c2)
    P = f(s)
    n = z3.Length(s)
    key = ("pair", c1, c2, s.get_id())
    if key not in st.ghost.setdefault("$ax", set()):
        st.ghost["$ax"] = set(st.ghost["$ax"]) | {key}
        st.assume(z3.And(P >= -1, P < n - 1), "ax:pair-range")
        st.assume(z3.Implies(P >= 0, z3.And(p1(s[P]), p2(s[P + 1]))), "ax:pair-hit")
        hi = z3.If(P >= 0, P, n - 1)
        reg.qfacts.append(RunFact2(s, ival(0), hi, lambda a, b: z3.Not(z3.And(p1(a), p2(b))), "ax:pair-first"))
    return P


class RunFact2:
    def __init__(self, s, lo, hi, pred2, label):
        self.s, self.lo, self.hi, self.pred2, self.label = s, lo, hi, pred2, label

    def instance(self, j):
        return z3.Implies(z3.And(j >= self.lo, j < self.hi), self.pred2(self.s[j], self.s[j + 1]))


def has_class(reg, st, s, cls):
    """exists j. cls(s[j])  with a witness function"""
    h = uf("has_" + cls.replace(":", "_").replace(",", "_"), STR, BOOL)
    w = uf("wit_" + cls.replace(":", "_").replace(",", "_"), STR, INT)
    p = class_pred(cls)
    H, W = h(s), w(s)
    n = z3.Length(s)
    key = ("has", cls, s.get_id())
    if key not in st.ghost.setdefault("$ax", set()):
        st.ghost["$ax"] = set(st.ghost["$ax"]) | {key}
        st.assume(z3.Implies(H, z3.And(W >= 0, W < n, p(s[W]))), "ax:has-witness")
        reg.qfacts.append(RunFactNot(s, n, p, H, "ax:has-all"))
    return H


class RunFactNot:
    """not H ==> forall j in range: not p(s[j])"""

    def __init__(self, s, n, pred, H, label):
        self.s, self.n, self.pred, self.H, self.label = s, n, pred, H, label

    def instance(self, j):
        return z3.Implies(z3.And(z3.Not(self.H), j >= 0, j < self.n), z3.Not(self.pred(self.s[j])))


def re_sub(ex, reg, st, pattern, repl, s, flags):
    shape = parse_regex_shape(pattern, flags)
    r = concrete_str(repl)
    if shape is None or r != "":
        raise EngineUnsupported(f"re.sub pattern {pattern!r} / replacement outside the supported shapes")
    n = z3.Length(s)
    if shape[0] == "lead":
        return lstrip_t(reg, st, s, shape[1])
    if shape[0] == "trail":
        return rstrip_t(reg, st, s, shape[1])
    if shape[0] == "trail_dollar":
        # CPython: '$' matches at the end and also just before a final line feed
        cls = shape[1]
        p = class_pred(cls)
        lf_in = z3.simplify(p(ival(10)))
        if z3.is_true(lf_in):
            return rstrip_t(reg, st, s, cls)
        body = z3.SubSeq(s, ival(0), n - 1)
        return z3.If(z3.And(n > 0, s[n - 1] == 10), z3.Concat(rstrip_t(reg, st, body, cls), mk_str("\n")),
                     rstrip_t(reg, st, s, cls))
    raise EngineUnsupported(f"re.sub shape {shape}")


# --------------------------------------------------------------------------------------------
# builtins
# --------------------------------------------------------------------------------------------
def call_builtin(ex, reg, st, f: VBuiltin, args, kwargs, node):
    name = f.name
    ln = getattr(node, "lineno", 0)
    if name.startswith("spec:"):
        return [(st, spec_builtin(ex, reg, st, name[5:], args, kwargs, node))]
    if name.startswith("typeddict:"):
        if args:
            raise EngineUnsupported("TypedDict constructor with positional arguments")
        fi = ex.prog.funcs.get(ex.func)
        rty = reg.record(name[10:], fi.module if fi else None)
        ref = st.alloc(DictCell(dict(kwargs), {k: True for k in kwargs}, rty))
        return [(st, ref)]
    recv = f.recv
    # ---- free functions
    if recv is None:
        if name == "len":
            v = args[0]
            if isinstance(v, VTuple):
                return [(st, VInt(ival(len(v.items))))]
            if isinstance(v, VRef) and isinstance(st.cell(v), ListCell) and st.cell(v).elem is None:
                return [(st, VInt(ival(len(st.cell(v).items))))]
            if isinstance(v, VRef) and isinstance(st.cell(v), DictCell):
                raise EngineUnsupported("len(dict)")
            if v is VNone:
                ex.oblige(st, f"safety[TypeError:len(None)@{ln}]", z3.BoolVal(False), lineno=ln)
                return []
            if isinstance(v, VOpt):
                ex.oblige(st, f"safety[TypeError:len(None)@{ln}]", z3.Not(v.ty.is_none(v.t)), lineno=ln)
                v = from_term(v.ty.val(v.t), v.ty.elem)
            el, t = ex.as_seq(st, v)
            return [(st, VInt(z3.Length(t)))]
        if name == "str":
            v = args[0]
            if isinstance(v, VStr):
                return [(st, v)]
            if isinstance(v, (VInt,)):
                return [(st, VStr(itos(st, v.t)))]
            if isinstance(v, VRef) and isinstance(st.cell(v), ObjCell) and "args" in st.cell(v).fields:
                a = st.cell(v).fields["args"]
                if isinstance(a, VTuple) and len(a.items) == 1:
                    return [(st, a.items[0])]
            if isinstance(v, VRec) and "args" in v.ty.index:
                a = from_term(v.ty.get(v.t, "args"), v.ty.index["args"][0])
                if isinstance(a, VTuple) and len(a.items) == 1:
                    return [(st, a.items[0])]
            raise EngineUnsupported(f"str() of {v!r}")
        if name in ("list", "tuple"):
            if not args:
                return [(st, st.alloc(ListCell(None, None, [])))]
            v = args[0]
            if isinstance(v, VTuple):
                return [(st, st.alloc(ListCell(None, None, list(v.items))))]
            if isinstance(v, VRef) and isinstance(st.cell(v), ListCell) and st.cell(v).elem is None:
                return [(st, st.alloc(ListCell(None, None, list(st.cell(v).items))))]
            el, t = ex.as_seq(st, v)
            if isinstance(v, VStr):
                raise EngineUnsupported("list(str)")
            return [(st, st.alloc(ListCell(el, t)))]
        if name == "iter":
            v = args[0]
            if isinstance(v, VStr):
                return [(st, st.alloc(IterCell(v.t, "char", ival(0))))]
            el, t = ex.as_seq(st, v)
            return [(st, st.alloc(IterCell(t, el, ival(0))))]
        if name == "next":
            it = args[0]
            if not (isinstance(it, VRef) and isinstance(st.cell(it), IterCell)):
                raise EngineUnsupported("next() of non-iterator")
            c = st.cell(it)
            out = []
            for s2, b in ex.branch(st, c.pos < z3.Length(c.seq)):
                if b:
                    elem = VStr(z3.Unit(c.seq[c.pos])) if c.elem == "char" else from_term(c.seq[c.pos], c.elem)
                    s2.set_cell(it, IterCell(c.seq, c.elem, z3.simplify(c.pos + 1)))
                    out.append((s2, elem))
                else:
                    if len(args) > 1:
                        out.append((s2, args[1]))
                    else:
                        ex.oblige(s2, f"safety[StopIteration@{ln}]", z3.BoolVal(False), lineno=ln)
            return out
        if name == "deque":
            if args:
                raise EngineUnsupported("deque(iterable)")
            ety = st.ghost.get("$deque_elem")
            if ety is None:
                return [(st, st.alloc(ListCell(None, None, [])))]
            return [(st, st.alloc(ListCell(ety, z3.Empty(TSeq(ety).sort()))))]
        if name in ("RuntimeError", "ValueError"):
            ref = st.alloc(ObjCell(name, {"args": VTuple(list(args))}, "local"))
            return [(st, ref)]
        if name == "re.sub":
            pat = _const_pattern(args[0])
            flags = 0
            fl = kwargs.get("flags")
            if fl is not None and not (isinstance(fl, VBuiltin) and fl.name in ("re.U", "re.UNICODE")):
                raise EngineUnsupported("re.sub flags")
            s = args[2]
            if not isinstance(s, VStr):
                raise EngineUnsupported("re.sub on non-str (TypeError)")
            return [(st, VStr(re_sub(ex, reg, st, pat, args[1].t, s.t, flags)))]
        if name == "re.split":
            pat = _const_pattern(args[0])
            shape = parse_regex_shape(pat)
            s = args[1]
            if shape is None or shape[0] != "pair" or not isinstance(s, VStr):
                raise EngineUnsupported(f"re.split pattern {pat!r}")
            P = first_pair(reg, st, s.t, shape[1], shape[2])
            head = z3.If(P >= 0, z3.SubSeq(s.t, ival(0), P), s.t)
            rest = fresh(z3.SeqSort(STR), "resplit_rest")
            return [(st, VSeq(T_STR, z3.Concat(z3.Unit(head), rest)))]
        if name == "re.match":
            pat = _const_pattern(args[0])
            shape = parse_regex_shape(pat)
            s = args[1]
            if shape is None or shape[0] != "lead_range" or not isinstance(s, VStr) or len(args) != 2:
                raise EngineUnsupported(f"re.match pattern {pat!r}")
            _, cls, lo, hi, lit = shape
            L = lead(reg, st, s.t, cls)
            cond = z3.And(L >= lo, L <= hi, L < z3.Length(s.t), s.t[L] == lit)
            out = []
            for s2, b in ex.branch(st, cond):
                out.append((s2, VPy("match") if b else VNone))
            return out
        if name == "re.search":
            pat = _const_pattern(args[0])
            shape = parse_regex_shape(pat)
            s = args[1]
            if shape is None or shape[0] != "has" or not isinstance(s, VStr):
                raise EngineUnsupported(f"re.search pattern {pat!r}")
            H = has_class(reg, st, s.t, shape[1])
            out = []
            for s2, b in ex.branch(st, H):
                out.append((s2, VPy("match") if b else VNone))
            return out
        if name == "enumerate" or name == "map" or name == "filter":
            raise EngineUnsupported(f"{name}() outside a for header")
        raise EngineUnsupported(f"builtin {name} (line {ln})")

    # ---- compiled regular expression objects (class attributes): abstract match with ghost group functions.
    # The pattern text is part of the ghost function's name, so a changed literal is a different function; what the
    # literal means is pinned down by the finite obligations regex::language-header (pyvc/enum_matcher.py).
    if isinstance(recv, VPy) and isinstance(recv.obj, tuple) and recv.obj[0] == "regex" and name == "regex.match":
        pat = recv.obj[1]
        pid_ = "re_" + __import__("hashlib").sha256(pat.encode()).hexdigest()[:8]
        s_ = args[0]
        if not isinstance(s_, VStr):
            raise EngineUnsupported("regex match on non-str")
        m_ = uf(pid_ + "_matches", STR, BOOL)(s_.t)
        out = []
        for s2, b in ex.branch(st, m_):
            out.append((s2, VPy(("rematch", pat, s_.t)) if b else VNone))
        return out
    if isinstance(recv, VPy) and isinstance(recv.obj, tuple) and recv.obj[0] == "rematch" and name == "rematch.group":
        pat, txt = recv.obj[1], recv.obj[2]
        pid_ = "re_" + __import__("hashlib").sha256(pat.encode()).hexdigest()[:8]
        gi = z3.simplify(ex.as_int(args[0]))
        return [(st, VStr(uf(pid_ + "_group%d" % gi.as_long(), STR, STR)(txt)))]
    # ---- methods on str
    if isinstance(recv, VStr):
        s = recv.t
        if name == "lstrip" and not args:
            return [(st, VStr(lstrip_t(reg, st, s)))]
        if name == "rstrip":
            if not args:
                return [(st, VStr(rstrip_t(reg, st, s)))]
            chars = concrete_str(args[0].t)
            if chars is None:
                raise EngineUnsupported("rstrip(non-constant)")
            cls = "CRLF" if set(chars) == {"\r", "\n"} else "SET:" + ",".join(str(ord(c)) for c in sorted(set(chars)))
            return [(st, VStr(rstrip_t(reg, st, s, cls)))]
        if name == "strip" and not args:
            return [(st, VStr(strip_t(reg, st, s)))]
        if name == "startswith":
            p = args[0]
            if not isinstance(p, VStr):
                raise EngineUnsupported("startswith(non-str)")
            return [(st, VBool(prefix_term(st, p.t, s)))]
        if name == "endswith":
            return [(st, VBool(z3.SuffixOf(args[0].t, s)))]
        if name == "replace":
            return [(st, VStr(replace_all(st, s, args[0].t, args[1].t)))]
        if name == "split":
            sep = concrete_str(args[0].t) if args else None
            if sep is None or len(sep) != 1:
                raise EngineUnsupported("split with non-constant / multi-char separator")
            return [(st, VSeq(T_STR, split_char(reg, st, s, ord(sep))))]
        if name == "join":
            v = args[0]
            if isinstance(v, (VTuple,)) or (isinstance(v, VRef) and isinstance(st.cell(v), ListCell) and st.cell(v).elem is None):
                items = v.items if isinstance(v, VTuple) else st.cell(v).items
                if not items:
                    return [(st, VStr(mk_str("")))]
                parts = []
                for i, it in enumerate(items):
                    if isinstance(it, VOpt) and it.ty.elem == T_STR:
                        # an optional string inside the joined list: None would be a TypeError
                        ex.oblige(st, f"safety[TypeError:join over None@{ln}]", z3.Not(it.ty.is_none(it.t)), lineno=ln)
                        it = VStr(it.ty.val(it.t))
                    if not isinstance(it, VStr):
                        ex.oblige(st, f"safety[TypeError:join non-str@{ln}]", z3.BoolVal(False), lineno=ln)
                        return []
                    if i:
                        parts.append(s)
                    parts.append(it.t)
                return [(st, VStr(parts[0] if len(parts) == 1 else z3.Concat(*parts)))]
            if isinstance(v, VStr):
                # join over the characters of a string: exact for constants, otherwise outside the subset
                cv, cs = concrete_str(v.t), concrete_str(s)
                if cv is not None and cs is not None:
                    return [(st, VStr(mk_str(cs.join(cv))))]
                raise EngineUnsupported("str.join over the characters of a symbolic string")
            el, t = ex.as_seq(st, v)
            if t is None:
                return [(st, VStr(mk_str("")))]
            if el != T_STR:
                if isinstance(el, TOpt) and el.elem == T_STR:
                    # every element must be a string (None would be a TypeError): one quantified safety obligation
                    j_ = fresh(INT, "jn")
                    ex.oblige(st, f"safety[TypeError:join over None@{ln}]",
                              z3.ForAll([j_], z3.Implies(z3.And(j_ >= 0, j_ < z3.Length(t)), z3.Not(el.is_none(t[j_])))),
                              lineno=ln)
                    return [(st, VStr(uf("join_opt", STR, t.sort(), STR)(s, t)))]
                ex.oblige(st, f"safety[TypeError:join non-str@{ln}]", z3.BoolVal(False), lineno=ln)
                return []
            return [(st, VStr(join(st, s, t)))]
        if name == "format":
            raise EngineUnsupported("str.format")
        raise EngineUnsupported(f"str.{name}")

    # ---- methods on list cells
    if isinstance(recv, VRef) and isinstance(st.cell(recv), ListCell):
        c = st.cell(recv)
        if name == "append":
            ex.list_append(st, recv, args[0], node)
            return [(st, VNone)]
        if name == "extend":
            ex.list_extend(st, recv, args[0], node)
            return [(st, VNone)]
        if name == "extendleft":
            # deque.extendleft(xs): xs is prepended in reverse order
            v = args[0]
            el, t = ex.as_seq(st, v)
            if t is None:
                return [(st, VNone)]
            if c.elem is None:
                if c.items:
                    raise EngineUnsupported("extendleft on python-level list")
                st.set_cell(recv, ListCell(el, seq_rev(reg, st, t), None, c.owner))
            else:
                st.set_cell(recv, ListCell(c.elem, z3.Concat(seq_rev(reg, st, t), c.seq), None, c.owner))
            return [(st, VNone)]
        if name in ("pop", "popleft"):
            if name == "pop" and args:
                raise EngineUnsupported("pop(index)")
            if c.elem is None:
                if not c.items:
                    ex.oblige(st, f"safety[IndexError:pop empty@{ln}]", z3.BoolVal(False), lineno=ln)
                    return []
                items = list(c.items)
                v = items.pop() if name == "pop" else items.pop(0)
                st.set_cell(recv, ListCell(None, None, items, c.owner))
                return [(st, v)]
            n = z3.Length(c.seq)
            ex.oblige(st, f"safety[IndexError:pop empty@{ln}]", n > 0, lineno=ln)
            if name == "pop":
                v = from_term(c.seq[n - 1], c.elem)
                st.set_cell(recv, ListCell(c.elem, z3.SubSeq(c.seq, ival(0), n - 1), None, c.owner))
            else:
                v = from_term(c.seq[0], c.elem)
                st.set_cell(recv, ListCell(c.elem, z3.SubSeq(c.seq, ival(1), n - 1), None, c.owner))
            return [(st, v)]
        raise EngineUnsupported(f"list.{name} (line {ln})")
    if isinstance(recv, (VSeq, VTuple)):
        if name in ("append", "extend", "pop", "sort", "insert", "remove", "clear", "reverse", "popleft"):
            ex.oblige(st, f"frame[{name} on value list@{ln}]", z3.BoolVal(False), kind="frame", serves=["C15"], lineno=ln)
            return []
        raise EngineUnsupported(f"sequence method {name}")
    if isinstance(recv, VRef) and isinstance(st.cell(recv), DictCell):
        raise EngineUnsupported(f"dict.{name}")
    raise EngineUnsupported(f"method {name} on {recv!r} (line {ln})")


def _const_pattern(v):
    if isinstance(v, VStr):
        c = concrete_str(v.t)
        if c is not None:
            return c
    raise EngineUnsupported("regular expression pattern is not a constant")


# split ------------------------------------------------------------------------------------------
def split_char(reg, st, s, cp):
    """s.split(chr(cp)) as an uninterpreted Seq(Str) with the offset characterisation (validated vs CPython)."""
    f = uf("split_%d" % cp, STR, z3.SeqSort(STR))
    items = f(s)
    off = split_off(reg)
    key = ("split", cp, s.get_id())
    if key not in st.ghost.setdefault("$ax", set()):
        st.ghost["$ax"] = set(st.ghost["$ax"]) | {key}
        n = z3.Length(items)
        st.assume(n >= 1, "ax:split-nonempty")
        st.assume(off(items, n) == z3.Length(s) + 1, "ax:split-total")
        reg.qfacts.append(SplitFact(s, items, cp, off))
    return items


_OFF = {}


def split_off(reg):
    """off(items, k) = sum_{j<k} (len(items[j]) + 1): uninterpreted, with its defining equation registered as a FoldDef."""
    if "off" not in _OFF:
        f = z3.Function("split_off", z3.SeqSort(STR), INT, INT)
        xs = z3.Const("oxs", z3.SeqSort(STR))
        k = z3.Int("ok")
        _OFF["off"] = f
        _OFF["def"] = FoldDef(f, [xs, k], z3.If(k <= 0, ival(0), f(xs, k - 1) + z3.Length(xs[k - 1]) + 1))
    reg.fold_defs["split_off"] = _OFF["def"]
    return _OFF["off"]


class SplitFact:
    """for 0 <= k < len(items): items[k] == s[off(k) : off(k)+len(items[k])], items[k] has no separator,
    and (k+1 < len(items)) ==> s[off(k+1)-1] == sep"""

    def __init__(self, s, items, cp, off):
        self.s, self.items, self.cp, self.off = s, items, cp, off
        self.label = "ax:split-items"

    def instance(self, k):
        n = z3.Length(self.items)
        o = self.off(self.items, k)
        it = self.items[k]
        return z3.Implies(z3.And(k >= 0, k < n), z3.And(
            o >= 0,
            it == z3.SubSeq(self.s, o, z3.Length(it)),
            z3.Not(z3.Contains(it, z3.Unit(ival(self.cp)))),
            z3.Implies(k + 1 < n, self.s[o + z3.Length(it)] == self.cp),
            self.off(self.items, k + 1) == o + z3.Length(it) + 1))


# --------------------------------------------------------------------------------------------
# spec builtins
# --------------------------------------------------------------------------------------------
def spec_builtin(ex, reg, st, name, args, kwargs, node) -> Val:
    def S(i):
        v = args[i]
        if not isinstance(v, VStr):
            raise EngineUnsupported(f"spec builtin {name}: argument {i} is not a string ({v!r})")
        return v.t

    if name == "implies":
        return VBool(z3.Implies(ex.truth(st, args[0]), ex.truth(st, args[1])))
    if name == "iff":
        return VBool(ex.truth(st, args[0]) == ex.truth(st, args[1]))
    if name == "ite":
        return ex.ite_val(st, ex.truth(st, args[0]), args[1], args[2])
    if name == "lstrip":
        return VStr(lstrip_t(reg, st, S(0)))
    if name == "rstrip":
        return VStr(rstrip_t(reg, st, S(0)))
    if name == "strip":
        return VStr(strip_t(reg, st, S(0)))
    if name == "strip_blank":
        return VStr(strip_t(reg, st, S(0), "BLANK"))
    if name == "strip_crlf":
        return VStr(rstrip_t(reg, st, S(0), "CRLF"))
    if name == "lead_ws":
        return VInt(lead(reg, st, S(0), "WS"))
    if name == "trail_ws":
        return VInt(trail(reg, st, S(0), "WS"))
    if name == "lead_blank":
        return VInt(lead(reg, st, S(0), "BLANK"))
    if name == "trail_blank":
        return VInt(trail(reg, st, S(0), "BLANK"))
    if name == "all_space":
        return VBool(lead(reg, st, S(0), "WS") == z3.Length(S(0)))
    if name == "contains_ws":
        return VBool(has_class(reg, st, S(0), "WS"))
    if name == "is_space":
        return VBool(is_space(S(0)[0]))
    if name == "itos":
        return VStr(itos(st, ex.as_int(args[0])))
    if name == "length":
        el, t = ex.as_seq(st, args[0])
        return VInt(z3.Length(t))
    if name == "replace_all":
        return VStr(replace_all(st, S(0), S(1), S(2)))
    if name == "join_lf_opt":
        el, t = ex.as_seq(st, args[0])
        if t is None:
            return VStr(mk_str(""))
        if isinstance(el, TOpt):
            return VStr(uf("join_opt", STR, t.sort(), STR)(mk_str("\n"), t))
        return VStr(join(st, mk_str("\n"), t))
    if name == "join_sep":
        el, t = ex.as_seq(st, args[1])
        if t is None:
            return VStr(mk_str(""))
        return VStr(join(st, args[0].t, t))
    if name == "join_lf":
        el, t = ex.as_seq(st, args[0])
        if t is None:
            return VStr(mk_str(""))
        return VStr(join(st, mk_str("\n"), t))
    if name == "startswith":
        return VBool(prefix_term(st, S(1), S(0)))
    if name == "endswith":
        return VBool(z3.SuffixOf(S(1), S(0)))
    if name == "seq_empty":
        ty = reg.parse_type(node.args[0])
        return VSeq(ty, z3.Empty(TSeq(ty).sort()))
    if name == "iter_pos":
        it = args[0]
        if isinstance(it, VRef) and isinstance(st.cell(it), IterCell):
            return VInt(st.cell(it).pos)
        raise EngineUnsupported("iter_pos of non-iterator")
    if name == "is_none":
        v = args[0]
        if v is VNone:
            return VBool(z3.BoolVal(True))
        if isinstance(v, VOpt):
            return VBool(v.ty.is_none(v.t))
        return VBool(z3.BoolVal(False))
    if name == "opt_val":
        v = args[0]
        if isinstance(v, VOpt):
            return from_term(v.ty.val(v.t), v.ty.elem)
        return v
    if name == "rec_has":
        v = args[0]
        k = ex.concrete_key(args[1])
        return VBool(ex.contains(st, v, args[1]))
    if name == "split_off":
        el, t = ex.as_seq(st, args[0])
        return VInt(split_off(reg)(t, ex.as_int(args[1])))
    if name == "split_on":
        sep = concrete_str(S(1))
        return VSeq(T_STR, split_char(reg, st, S(0), ord(sep)))
    if name == "first_ws_hash":
        return VInt(first_pair(reg, st, S(0), "WS", "SET:35"))
    if name in ("re_matches", "re_group1"):
        pat = concrete_str(S(0))
        pid_ = "re_" + __import__("hashlib").sha256(pat.encode()).hexdigest()[:8]
        if name == "re_matches":
            return VBool(uf(pid_ + "_matches", STR, BOOL)(S(1)))
        return VStr(uf(pid_ + "_group1", STR, STR)(S(1)))
    if name == "typed_is_str":
        return VBool(z3.BoolVal(isinstance(args[0], VStr)))
    if name == "char_at":
        return VInt(S(0)[ex.as_int(args[1])])
    if name == "first_index":
        # first_index(s, "c") : index of first occurrence or -1
        return VInt(z3.IndexOf(S(0), S(1), ival(0)))
    raise EngineUnsupported(f"spec builtin {name}")


class FoldDef:
    """F(xs, k, init, extra) == If(k <= 0, init, step(F(xs, k-1, init, extra), xs[k-1], k-1, extra)) -- the defining equation,
    instantiated (verify.prepare_query) at every application of F occurring in a query, two rounds deep."""

    def __init__(self, F, params, body):
        self.F, self.params, self.body = F, params, body

    def unfold(self, app):
        return app == self.rhs(app)

    def rhs(self, app):
        subst = [(p, app.arg(i)) for i, p in enumerate(self.params)]
        return z3.substitute(self.body, *subst)


def spec_fold(ex, reg, st, e: ast.Call, which):
    """fold_prefix(xs, n, init, step[, extra...]) / fold(xs, init, step[, extra...]).

    F(xs, k, extra) = init                          if k <= 0
                    = step(F(xs, k-1, extra), xs[k-1], k-1, extra...)   otherwise
    declared as a z3 recursive function (unfolded on demand by the solver)."""
    args = list(e.args)
    xs = ex.one(st, args[0])
    if which == "fold_prefix":
        n = ex.as_int(ex.one(st, args[1]))
        init_e, step_e, extra_e = args[2], args[3], args[4:]
    else:
        n = None
        init_e, step_e, extra_e = args[1], args[2], args[3:]
    el, seq = ex.as_seq(st, xs)
    if n is None:
        n = z3.Length(seq)
    is_char = isinstance(xs, VStr)
    extras = [ex.freeze(st, ex.one(st, a)) for a in extra_e]
    if not isinstance(step_e, ast.Name) or step_e.id not in reg.spec_funcs:
        raise EngineUnsupported("fold step must be a named spec function")
    init_v = ex.freeze(st, ex.one(st, init_e))
    sty = ty_of_val(init_v)
    init_t = to_term(init_v, sty)
    key = (step_e.id, str(seq.sort()), str(sty), tuple(str(ty_of_val(x)) for x in extras))
    if key not in reg.fold_cache:
        name = f"fold_{step_e.id}_{len(reg.fold_cache)}"
        exs = [ty_of_val(x).sort() for x in extras]
        F = z3.Function(name, seq.sort(), INT, sty.sort(), *exs, sty.sort())
        pxs = z3.Const("fxs", seq.sort())
        pk = z3.Int("fk")
        pinit = z3.Const("finit", sty.sort())
        pex = [z3.Const(f"fex{i}", s) for i, s in enumerate(exs)]
        prev = from_term(F(pxs, pk - 1, pinit, *pex), sty)
        elem = VStr(z3.Unit(pxs[pk - 1])) if is_char else from_term(pxs[pk - 1], el)
        s2 = st.clone()
        s2.env = {}
        fn = VFunc("spec:" + step_e.id, reg.spec_funcs[step_e.id], None, None)
        exv = [from_term(p, ty_of_val(x)) for p, x in zip(pex, extras)]
        res = reg.inline_call(ex, s2, fn, [prev, elem, VInt(pk - 1)] + exv, {}, e)
        if len(res) != 1 or isinstance(res[0][1], Raised):
            raise EngineUnsupported("fold step is not single-valued")
        stepped = to_term(ex.freeze(res[0][0], res[0][1], sty), sty)
        reg.fold_cache[key] = F
        reg.fold_defs[name] = FoldDef(F, [pxs, pk, pinit] + pex, z3.If(pk <= 0, pinit, stepped))
    F = reg.fold_cache[key]
    return [(st, from_term(F(seq, n, init_t, *[to_term(x, ty_of_val(x)) for x in extras]), sty))]
