"""F obligations: spaces that are finite by nature, enumerated completely (the automaton table, the dialect table,
the acceptance corpus), plus the per-property bookkeeping (assumptions, trusted base, claimed level)."""
from __future__ import annotations

import hashlib
import json
import os
import subprocess
import sys

from . import automaton

VERIF = os.path.dirname(os.path.dirname(os.path.abspath(__file__)))
REPO_PY = os.environ.get("VERIF_REPO_PYTHON", "/venv/bin/python")

_cache = {}


def _auto(prog, reg, repo):
    if "auto" not in _cache:
        states, tbl, py = automaton.python_decision_table(prog, reg)
        ref = automaton.Reference(os.path.join(repo, "gherkin.berp"))
        seen, steps, mism = automaton.bisimulate(py, ref)
        _cache["auto"] = dict(states=states, tbl=tbl, py=py, ref=ref, seen=seen, steps=steps, mism=mism)
    return _cache["auto"]


def ob(name, ok, detail=None, size=None, witness=None, exhaustive=True, checker_error=False, bounded=False, undecided=False):
    return {"name": name, "ok": bool(ok), "detail": detail, "size": size, "witness": witness, "exhaustive": exhaustive,
            "checker_error": checker_error, "bounded": bounded, "undecided": undecided}


# ------------------------------------------------------------------------------------------------
def f_table_extraction(prog, reg, repo):
    """The 42 state functions, symbolically executed (loop-free, all matcher / look-ahead outcomes, EOF and non-EOF
    token, both error modes) have the shape of an ordered decision list with an error tail."""
    out = []
    try:
        a = _auto(prog, reg, repo)
    except Exception as e:
        return [ob("automaton::extract[parser.py state functions]", False, f"{type(e).__name__}: {e}", checker_error=False)]
    n_paths = sum(len(ps) for cfg in a["tbl"].values() for ps in cfg.values())
    out.append(ob("automaton::extract[42 state functions x {eof,non-eof} x {collect,stop}]", True, size=n_paths))
    return out


def f_dispatch(prog, reg, repo):
    """The dispatcher Parser.match_token (whose contract in contracts/b_parser.py is abstract) is the plain table dispatch:
    for each of the 42 states exactly one call of that state's function with the same token and context, its result
    returned, nothing else done; unknown states raise.  Decided by symbolic execution for every state value."""
    a = _auto(prog, reg, repo)
    try:
        probs = automaton.dispatch_summary(prog, reg, a["states"])
    except Exception as e:
        return [ob("automaton::dispatch[match_token calls match_token_at_<state> and nothing else]", False,
                   f"dispatcher outside the analysable subset: {type(e).__name__}: {e}", undecided=True,
                   size=len(a["states"]))]
    return [ob("automaton::dispatch[match_token calls match_token_at_<state>(token, context) once, returns its result, does nothing else]",
               not probs, "; ".join(probs[:3]), size=len(a["states"]) + 2, witness=probs[:3] or None)]


def f_modes(prog, reg, repo):
    """Per state: stop mode raises exactly the error that collecting mode adds; the error tail keeps the state;
    EOF tokens get UnexpectedEOFException, other tokens UnexpectedTokenException; the expected list is the same."""
    a = _auto(prog, reg, repo)
    out = []
    bad = []
    for n in a["states"]:
        cfg = a["tbl"][n]
        for eof in (False, True):
            col = [p for p in cfg[(eof, False)] if p.result[0] == "error-added"]
            stp = [p for p in cfg[(eof, True)] if p.result[0] == "raise" and p.result[1][0] != "external"]
            if len(col) != 1 or len(stp) != 1:
                bad.append(f"state {n} eof={eof}: {len(col)} collecting error paths, {len(stp)} stop-mode error paths")
                continue
            c, s = col[0], stp[0]
            want = "UnexpectedEOFException" if eof else "UnexpectedTokenException"
            if c.result[1] != s.result[1]:
                bad.append(f"state {n} eof={eof}: collect adds {c.result[1][:2]} but stop raises {s.result[1][:2]}")
            if c.result[1][0] != want:
                bad.append(f"state {n} eof={eof}: error class {c.result[1][0]}, expected {want}")
            if c.result[2] != n:
                bad.append(f"state {n}: error tail returns {c.result[2]} instead of staying in {n}")
            if c.events or s.events:
                bad.append(f"state {n}: error path has builder events {c.events or s.events}")
            # non-error paths must not depend on the mode
            a_ok = sorted(p.key() for p in cfg[(eof, False)] if p.result[0] == "return")
            b_ok = sorted(p.key() for p in cfg[(eof, True)] if p.result[0] == "return")
            if a_ok != b_ok:
                bad.append(f"state {n} eof={eof}: successful paths differ between the two error modes")
    out.append(ob("automaton::modes[stop-at-first-error raises what collecting adds; tail keeps state; class by EOF]",
                  not bad, "; ".join(bad[:5]), size=len(a["states"]) * 2))
    return out


def f_build_once(prog, reg, repo):
    """Justifies the abstract contract of Parser.match_token (contracts/b_parser.py): on every path of every state
    function the token is built exactly once, as the last production, or reported as unexpected -- never both,
    never neither; the queue and scanner are touched only through read_token / lookahead_k (any other access makes
    the extraction fail)."""
    a = _auto(prog, reg, repo)
    bad, n = [], 0
    for st, cfg in a["tbl"].items():
        for key, paths in cfg.items():
            for p in paths:
                n += 1
                builds = [e for e in p.events if e[0] == "build"]
                if p.result[0] == "return":
                    if len(builds) != 1 or p.events[-1] != ("build",):
                        bad.append(f"state {st} {key}: successful path with events {p.events}")
                else:
                    if builds or p.events:
                        bad.append(f"state {st} {key}: error path with events {p.events}")
    return [ob("automaton::build-once[each path builds the token exactly once (last) or reports it]", not bad,
               "; ".join(bad[:4]), size=n)]


def f_siblings(prog, reg, repo):
    a = _auto(prog, reg, repo)
    out = []
    for lang in automaton.SIBLINGS:
        try:
            sib = automaton.sibling_table(repo, lang)
        except Exception as e:
            out.append(ob(f"automaton::sibling[{lang}]", False, f"cannot read: {e}", checker_error=True))
            continue
        nb = sum(len(v["branches"]) for v in sib.values())
        if len(sib) != 42 or nb != 334:
            out.append(ob(f"automaton::sibling[{lang}]", False, f"extraction found {len(sib)} states / {nb} transitions "
                          f"(expected 42 / 334): sibling reader out of date", checker_error=True))
            continue
        d = automaton.compare_with_sibling(a["py"], sib, lang)
        out.append(ob(f"automaton::sibling[{lang}: 42 states, 334 transitions, 42 expected lists]", not d,
                      "; ".join(d[:4]), size=nb + 42, witness=d[:4] or None))
    return out


def f_bisim(prog, reg, repo):
    a = _auto(prog, reg, repo)
    mism = a["mism"]
    wit = None
    if mism:
        m = mism[0]
        wit = {"mismatch": {k: str(v) for k, v in m.items()}, "line_kinds_to_reach": automaton.path_to(a["seen"], m["pair"])}
    reached = {p[0] for p in a["seen"]}
    missing = [n for n in a["states"] if n not in reached]
    out = [ob("automaton::bisim[python table ~ transducer derived from gherkin.berp]", not mism,
              f"{len(mism)} mismatching (state, line kind, look-ahead) triples" if mism else None,
              size=a["steps"], witness=wit),
           ob("automaton::reach[every state function is reachable in the product]", not missing,
              f"unreachable python states: {missing}", size=len(a["states"]))]
    stacks, probs = automaton.stack_discipline(a["py"], a["seen"])
    out.append(ob("automaton::stack[unique rule stack per state; every end_rule(X) pops an X]", not probs,
                  "; ".join(probs[:4]), size=len(stacks)))
    return out


def f_docstring_states(prog, reg, repo):
    """C13: inside a doc string only the separator and Other are tested; such states are entered only by an opening
    separator and left only by a closing one."""
    a = _auto(prog, reg, repo)
    py = a["py"]
    stacks, _ = automaton.stack_discipline(py, a["seen"])
    inside = [n for n, st in stacks.items() if st and st[-1] == "DocString" and n in py and
              any(b[0] == "Other" for b in py[n]["branches"])]
    bad = []
    for n in inside:
        kinds = [b[0] for b in py[n]["branches"]]
        if kinds != ["DocStringSeparator", "Other"]:
            bad.append(f"state {n} tests {kinds}")
        for b in py[n]["branches"]:
            if b[0] == "Other" and b[3] != n:
                bad.append(f"state {n}: Other leaves to {b[3]}")
            if b[1] is not None:
                bad.append(f"state {n}: look-ahead inside a doc string")
    for n, e in py.items():
        for b in e["branches"]:
            if b[3] in inside and n not in inside and b[0] != "DocStringSeparator":
                bad.append(f"state {n} enters doc string state {b[3]} on {b[0]}")
    return [ob("automaton::docstring[states inside a doc string test only separator then Other]", not bad and len(inside) > 0,
               "; ".join(bad[:4]) or (None if inside else "no doc string state found"), size=len(inside))]


def f_lookahead_targets(prog, reg, repo):
    """C01/C18: every look-ahead guarded transition leads to a Tags state whose Empty/Comment/TagLine transitions are
    unguarded self-loops (so a line is scanned by at most the look-aheads of one tag line run)."""
    a = _auto(prog, reg, repo)
    py = a["py"]
    bad, n = [], 0
    for s, e in py.items():
        for k, la, ev, tgt in e["branches"]:
            if la is None:
                continue
            n += 1
            if k != "TagLine":
                bad.append(f"state {s}: look-ahead on {k}")
            t = py.get(tgt)
            if t is None:
                bad.append(f"state {s}: look-ahead target {tgt} missing")
                continue
            loops = {b[0]: b for b in t["branches"] if b[0] in ("TagLine", "Comment", "Empty")}
            for kk in ("TagLine", "Comment", "Empty"):
                b = loops.get(kk)
                if b is None or b[1] is not None or b[3] != tgt:
                    bad.append(f"state {tgt}: {kk} is not an unguarded self-loop")
    mx = max(len(max((p.tests for p in cfg[(False, False)]), key=len)) for cfg in a["tbl"].values())
    return [ob("automaton::lookahead-targets[guards only on TagLine; targets loop on TagLine/Comment/Empty]", not bad,
               "; ".join(bad[:4]), size=n),
            ob(f"automaton::max-tests[at most {mx} matcher calls per state and token]", mx <= 16, size=mx)]


def f_corpus(kinds, name):
    def run(prog, reg, repo):
        env = dict(os.environ)
        env["VERIF_REPO"] = repo
        p = subprocess.run([REPO_PY, os.path.join(VERIF, "pyvc", "corpus.py"), ",".join(kinds)], capture_output=True,
                           text=True, env=env, timeout=600)
        line = [l for l in p.stdout.split("\n") if l.startswith("{")]
        if not line:
            return [ob(f"corpus::{name}", False, (p.stderr or p.stdout)[-400:], checker_error=False,
                       witness={"stderr": (p.stderr or "")[-300:]})]
        r = json.loads(line[-1])
        return [ob(f"corpus::{name}[{r['compared']} reference files of testdata]", not r["mismatches"],
                   f"{len(r['mismatches'])} files differ" if r["mismatches"] else None, size=r["compared"],
                   witness=r["mismatches"][:3] or None)]
    return run


def f_no_hidden_state(prog, reg, repo):
    """C15: an AST scan of every module of python/gherkin: no global/nonlocal statement; the only module- or class-level
    mutable containers are constants that no code writes to (no store, no mutator call, no del on them); no source of
    nondeterminism is imported.  This is the machine-checked part of the non-interference argument of DESIGN.md 5 C15."""
    import ast as _ast
    root = os.path.join(repo, "python", "gherkin")
    bad, nfiles, shared = [], 0, {}
    trees = {}
    for dp, _dn, fns in os.walk(root):
        for fn in sorted(fns):
            if fn.endswith(".py"):
                path = os.path.join(dp, fn)
                with open(path, encoding="utf8") as f:
                    trees[os.path.relpath(path, root)] = _ast.parse(f.read())
                nfiles += 1
    mutators = {"append", "extend", "update", "pop", "clear", "insert", "remove", "setdefault", "sort", "reverse",
                "popitem", "add", "discard", "appendleft", "extendleft", "popleft", "__setitem__", "__delitem__"}
    nondet = {"random", "time", "datetime", "threading", "uuid", "secrets", "multiprocessing", "asyncio"}

    def is_immutable_value(v):
        if isinstance(v, (_ast.Constant, _ast.JoinedStr)):
            return True
        if isinstance(v, _ast.Tuple):
            return all(is_immutable_value(e) for e in v.elts)
        if isinstance(v, _ast.Call):
            fn_ = _ast.unparse(v.func)
            return fn_ in ("TypeVar", "TypedDict", "os.path.join", "re.compile", "os.path.dirname", "NamedTuple")
        if isinstance(v, (_ast.Name, _ast.Attribute, _ast.Subscript, _ast.BinOp)):
            return True     # aliases of types / other constants
        return False
    for rel, tree in trees.items():
        for node in _ast.walk(tree):
            if isinstance(node, (_ast.Global, _ast.Nonlocal)):
                bad.append(f"{rel}:{node.lineno}: {type(node).__name__.lower()} statement")
            if isinstance(node, (_ast.Import, _ast.ImportFrom)):
                names = [a.name.split(".")[0] for a in node.names] + ([node.module.split(".")[0]] if isinstance(node, _ast.ImportFrom) and node.module else [])
                for nm in names:
                    if nm in nondet:
                        bad.append(f"{rel}:{node.lineno}: imports {nm}")
            if isinstance(node, _ast.Call) and isinstance(node.func, _ast.Name) and node.func.id in ("id", "hash", "input", "globals", "setattr"):
                bad.append(f"{rel}:{node.lineno}: call of {node.func.id}()")
        scopes = [(tree, "module")] + [(n, "class " + n.name) for n in _ast.walk(tree) if isinstance(n, _ast.ClassDef)]
        for scope, what in scopes:
            for st in scope.body:
                tgts, val = [], None
                if isinstance(st, _ast.Assign):
                    tgts, val = st.targets, st.value
                elif isinstance(st, _ast.AnnAssign) and st.value is not None:
                    tgts, val = [st.target], st.value
                elif isinstance(st, _ast.With):
                    for inner in st.body:
                        if isinstance(inner, (_ast.Assign, _ast.AnnAssign)) and getattr(inner, "value", None) is not None:
                            t2 = inner.targets if isinstance(inner, _ast.Assign) else [inner.target]
                            for t in t2:
                                if isinstance(t, _ast.Name):
                                    shared[t.id] = f"{rel}:{inner.lineno}"
                    continue
                for t in tgts:
                    if isinstance(t, _ast.Name) and not is_immutable_value(val):
                        shared[t.id] = f"{rel}:{st.lineno}"
    # nothing writes to the shared containers
    for rel, tree in trees.items():
        for fn_ in [n for n in _ast.walk(tree) if isinstance(n, (_ast.FunctionDef, _ast.AsyncFunctionDef, _ast.Lambda))]:
            for node in _ast.walk(fn_):
                base = None
                if isinstance(node, (_ast.Subscript, _ast.Attribute)) and isinstance(node.ctx, (_ast.Store, _ast.Del)):
                    b = node.value
                    while isinstance(b, (_ast.Subscript, _ast.Attribute)):
                        b = b.value
                    base = b.id if isinstance(b, _ast.Name) else None
                elif isinstance(node, _ast.Name) and isinstance(node.ctx, (_ast.Store, _ast.Del)) and node.id in shared \
                        and node.id.isupper():
                    base = node.id
                elif isinstance(node, _ast.Call) and isinstance(node.func, _ast.Attribute) and node.func.attr in mutators:
                    b = node.func.value
                    chain = _ast.unparse(b)
                    while isinstance(b, (_ast.Subscript, _ast.Attribute)):
                        b = b.value
                    base = b.id if isinstance(b, _ast.Name) else None
                    if ".spec" in chain or chain.endswith("_keywords") or ".dialect." in chain:
                        bad.append(f"{rel}:{node.lineno}: mutator .{node.func.attr} on shared dialect data ({chain})")
                if base in shared:
                    bad.append(f"{rel}:{getattr(node, 'lineno', 0)}: writes to module/class-level container {base} (defined {shared[base]})")
    return [ob(f"determinism::no-hidden-state[{nfiles} modules: no global/nonlocal, shared containers {sorted(shared)} never written, no nondeterministic import]",
               not bad, "; ".join(bad[:5]), size=nfiles, witness=bad[:5] or None)]


def f_json_identity(prog, reg, repo):
    a = open(os.path.join(repo, "gherkin-languages.json"), "rb").read()
    b = open(os.path.join(repo, "python", "gherkin", "gherkin-languages.json"), "rb").read()
    return [ob("dialects::identity[packaged language table is byte-identical to the master table]", a == b,
               None if a == b else f"sha256 {hashlib.sha256(a).hexdigest()[:12]} vs {hashlib.sha256(b).hexdigest()[:12]}",
               size=len(a))]


def f_rt(script, name, bounded=False, args_quick=(), args_thorough=()):
    """An enumeration that needs the repository interpreter: pyvc/enum_<script>.py prints one JSON line."""
    def run(prog, reg, repo, tier="quick"):
        env = dict(os.environ)
        env["VERIF_REPO"] = repo
        extra = list(args_thorough if tier == "thorough" else args_quick)
        p = subprocess.run([REPO_PY, os.path.join(VERIF, "pyvc", f"enum_{script}.py")] + extra, capture_output=True,
                           text=True, env=env, timeout=3000)
        line = [l for l in p.stdout.split("\n") if l.startswith("{")]
        if not line:
            return [ob(f"{name}", False, (p.stderr or p.stdout)[-400:], witness={"stderr": (p.stderr or "")[-300:]},
                       bounded=bounded)]
        r = json.loads(line[-1])
        return [ob(x["name"], x["ok"], x.get("detail"), x.get("size"), x.get("witness"),
                   bounded=bounded or bool(x.get("bounded")), exhaustive=x.get("exhausted", True)) for x in r["results"]]
    run.takes_tier = True
    return run


f_compile = f_rt("compile", "compile", bounded=True, args_quick=("--bound", "2", "--time-limit", "40"),
                args_thorough=("--bound", "3", "--time-limit", "600"))
def f_docs(sections):
    return f_rt("documents", "documents", bounded=True, args_quick=("--count", "80", "--sections", sections),
                args_thorough=("--count", "2000", "--sections", sections))


f_markdown = f_rt("markdown", "markdown", args_quick=("quick",), args_thorough=("thorough",))
f_matcher = f_rt("matcher", "matcher", args_quick=("--bound", "2"), args_thorough=("--bound", "3"))
f_traces = f_rt("parser_traces", "parser-traces", bounded=True, args_quick=("--bound", "3"),
                args_thorough=("--bound", "5", "--time-limit", "600"))


PROPS = {
    "C01": dict(finite=[f_table_extraction, f_dispatch, f_modes, f_lookahead_targets, f_traces, f_docs("total,errors")]),
    "C02": dict(finite=[f_table_extraction, f_dispatch, f_siblings, f_bisim, f_traces, f_docs("documents,history")]),
    "C03": dict(finite=[f_build_once, f_corpus(["ast"], "ast"), f_docs("documents")]),
    "C04": dict(finite=[f_docs("documents,layout,errors")]),
    "C05": dict(finite=[f_json_identity, f_matcher]),
    "C06": dict(finite=[f_compile, f_docs("documents")]),
    "C07": dict(finite=[f_compile, f_docs("documents")]),
    "C08": dict(finite=[f_compile, f_docs("documents")]),
    "C09": dict(finite=[f_compile, f_docs("documents")]),
    "C10": dict(finite=[f_compile, f_matcher, f_docs("documents")]),
    "C11": dict(finite=[f_compile, f_docs("documents,stream")]),
    "C12": dict(finite=[f_docs("documents,errors")]),
    "C13": dict(finite=[f_docstring_states, f_docs("documents")]),
    "C14": dict(finite=[f_dispatch, f_modes, f_siblings, f_corpus(["errors"], "errors"), f_traces, f_matcher, f_docs("errors")]),
    "C15": dict(finite=[f_no_hidden_state, f_compile, f_matcher, f_docs("history")]),
    "C16": dict(finite=[f_docs("layout,insertion,errors")]),
    "C17": dict(finite=[f_corpus(["source", "ast", "pickles", "errors"], "events"), f_docs("stream,layout")]),
    "C18": dict(finite=[f_table_extraction, f_dispatch, f_build_once, f_lookahead_targets, f_corpus(["tokens"], "tokens"), f_traces,
                        f_docs("documents,history")]),
    "C19": dict(finite=[f_markdown]),
}


def f_axioms(prog, reg, repo, tier="quick"):
    """Guard, not an obligation about the code: the executable readings of the trusted CPython axioms agree with the
    interpreter that runs the repository (pyvc/axiom_check.py).  A disagreement is a checker error."""
    env = dict(os.environ)
    env["VERIF_REPO"] = repo
    p = subprocess.run([REPO_PY, os.path.join(VERIF, "pyvc", "axiom_check.py"), "5" if tier == "thorough" else "4"],
                       capture_output=True, text=True, env=env, timeout=1200)
    line = [l for l in p.stdout.split("\n") if l.startswith("{")]
    if not line:
        return [ob("axioms::cpython-readings", False, (p.stderr or p.stdout)[-300:], checker_error=True)]
    r = json.loads(line[-1])
    badr = [x for x in r["results"] if not x["ok"]]
    return [ob(f"axioms::cpython-readings[{len(r['results'])} readings of str/re/io/deque axioms agree with CPython {r['python']} (bound {r['bound']})]",
               r["ok"], "; ".join(f"{x['name']}: {x.get('detail')}" for x in badr[:3]) or None,
               size=len(r["results"]), checker_error=True, bounded=True)]


f_axioms.takes_tier = True


def groups(pid):
    """Task groups of a property's finite/bounded providers: the in-process ones (they share the automaton
    extraction) form group 0, every provider that runs a subprocess on the repository interpreter is its own group."""
    fs = list(PROPS.get(pid, {}).get("finite", []))
    if pid != "C19":
        fs = [f_axioms] + fs
    inproc = [f for f in fs if not getattr(f, "takes_tier", False)]
    sub = [f for f in fs if getattr(f, "takes_tier", False)]
    return ([inproc] if inproc else []) + [[f] for f in sub]


def run(pid, prog, reg, tier, repo, group=None):
    out = []
    gs = groups(pid)
    fs = [f for g in gs for f in g] if group is None else gs[group]
    for f in fs:
        if getattr(f, "takes_tier", False):
            out.extend(f(prog, reg, repo, tier))
        else:
            out.extend(f(prog, reg, repo))
    return out


def level_of(pid):
    from .claims import CLAIMS
    return CLAIMS.get(pid, {}).get("level", "other")


def explanation(pid):
    from .claims import CLAIMS
    c = CLAIMS.get(pid, {})
    return c.get("text", "") + "  [trust/limits: " + c.get("note", "") + "]"


COMMON_TRUST = [
    "PyVC itself (the ast->VC generator in /verif/pyvc, ~4k lines) and the semantics it assigns to the Python subset (DESIGN.md 3.2)",
    "z3 5.1.0 / cvc5 1.0.3 soundness",
    "axioms about CPython str/re/io operations (pyvc/strings.py), each validated against CPython on a bounded domain by pyvc/axiom_check.py",
    "contracts marked trusted=True (external or dynamic code: Dialect.for_name, json, io) are assumed, not proved",
]


def trusted_base(pid, reg):
    tb = list(COMMON_TRUST)
    if reg is not None:
        # mechanical scan of the sidecars: everything that is assumed rather than proved
        for q, c in reg.contracts.items():
            if c.trusted:
                tb.append(f"trusted contract (external / dynamic code): {q}")
            elif c.abstract:
                tb.append(f"assumed contract (abstract ghost view, not checked against a body): {q}")
            elif c.bounded_only:
                tb.append(f"contract used by callers but decided only by enumeration / bounded stand-in: {q}")
    if pid in ("C02", "C14"):
        tb.append("textual extraction of the sibling parsers' tables (regular expressions over generated code; a count other than 42/334 is a checker error)")
        tb.append("my reader of the 30-line .berp grammar format and the position-automaton construction (pyvc/automaton.py)")
    return tb


def assumptions(pid, reg):
    from .claims import CLAIMS
    a = [
        "limits of this property's check (from the claim table): " + CLAIMS.get(pid, {}).get("note", ""),
        "Python ints are mathematical integers (exact); str is a sequence of code points modelled as Seq(Int) without an upper bound on code points",
        "character-class facts about str.isspace / \\s: the 29 white-space code points (validated against CPython over all 0x110000 code points by axiom_check)",
        "termination of re/io/json library calls",
        "each property's check discharges the clauses tagged with it; clauses tagged with other properties that appear as hypotheses (loop invariants, callee postconditions) are discharged by those properties' checks",
    ]
    return a
