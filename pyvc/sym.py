"""Symbolic values, type descriptors and z3 helpers for PyVC.

Strings are finite sequences of code points: z3 ``Seq(Int)`` (so a non-BMP character is one
element, as in CPython).  Python ints are mathematical integers (exact: Python ints are unbounded).
Records (TypedDicts / immutable objects) are z3 datatypes; optional fields carry a presence flag.
"""
from __future__ import annotations

import itertools
from dataclasses import dataclass, field
from typing import Any

import z3

INT = z3.IntSort()
BOOL = z3.BoolSort()
STR = z3.SeqSort(INT)


class EngineUnsupported(Exception):
    """Raised when the code uses a construct outside the interpreted subset (function out of reach)."""


# --------------------------------------------------------------------------------------------
# type descriptors
# --------------------------------------------------------------------------------------------
class Ty:
    def sort(self):
        raise NotImplementedError

    def __eq__(self, other):
        return type(self) is type(other) and self.key() == other.key()

    def __hash__(self):
        return hash((type(self).__name__, self.key()))

    def key(self):
        return ()

    def __repr__(self):
        return type(self).__name__[1:]


class TInt(Ty):
    def sort(self):
        return INT


class TBool(Ty):
    def sort(self):
        return BOOL


class TStr(Ty):
    def sort(self):
        return STR


class TSeq(Ty):
    def __init__(self, elem: Ty):
        self.elem = elem

    def key(self):
        return (self.elem,)

    def sort(self):
        return z3.SeqSort(self.elem.sort())

    def __repr__(self):
        return f"Seq[{self.elem!r}]"


_DT_CACHE: dict[str, Any] = {}


class TMap(Ty):
    """total map key -> value (python dict / defaultdict with a default), as a z3 array"""

    def __init__(self, key: Ty, val: Ty):
        self.keyt, self.val = key, val

    def key(self):
        return (self.keyt, self.val)

    def sort(self):
        return z3.ArraySort(self.keyt.sort(), self.val.sort())

    def __repr__(self):
        return f"Map[{self.keyt!r},{self.val!r}]"


class TOpt(Ty):
    """None | value, as a datatype (used where an optional has to live inside a z3 term)."""

    def __init__(self, elem: Ty):
        self.elem = elem

    def key(self):
        return (self.elem,)

    def name(self):
        return "Opt_" + _sort_name(self.elem)

    def sort(self):
        n = self.name()
        if n not in _DT_CACHE:
            d = z3.Datatype(n)
            d.declare("none_" + n)
            d.declare("some_" + n, ("val_" + n, self.elem.sort()))
            _DT_CACHE[n] = d.create()
        return _DT_CACHE[n]

    def none(self):
        return getattr(self.sort(), "none_" + self.name())

    def some(self, t):
        return getattr(self.sort(), "some_" + self.name())(t)

    def is_none(self, t):
        return getattr(self.sort(), "is_none_" + self.name())(t)

    def val(self, t):
        return getattr(self.sort(), "val_" + self.name())(t)

    def __repr__(self):
        return f"Opt[{self.elem!r}]"


class TTuple(Ty):
    def __init__(self, items):
        self.items = tuple(items)

    def key(self):
        return self.items

    def name(self):
        return "Tup_" + "_".join(_sort_name(i) for i in self.items)

    def sort(self):
        n = self.name()
        if n not in _DT_CACHE:
            d = z3.Datatype(n)
            d.declare("mk_" + n, *[(f"{n}_i{k}", it.sort()) for k, it in enumerate(self.items)])
            _DT_CACHE[n] = d.create()
        return _DT_CACHE[n]

    def mk(self, terms):
        return getattr(self.sort(), "mk_" + self.name())(*terms)

    def get(self, t, k):
        return getattr(self.sort(), f"{self.name()}_i{k}")(t)

    def __repr__(self):
        return "Tup" + repr(list(self.items))


class TRec(Ty):
    """A record with constant string keys. fields: list of (key, Ty, optional)."""

    def __init__(self, name: str, fields):
        self.name = name
        self.fields = list(fields)
        self.index = {k: (t, o) for k, t, o in self.fields}

    def key(self):
        return (self.name,)

    def sort(self):
        n = "R_" + self.name
        if n not in _DT_CACHE:
            d = z3.Datatype(n)
            decl = []
            for k, t, o in self.fields:
                decl.append((self._f(k), t.sort()))
                if o:
                    decl.append((self._h(k), BOOL))
            d.declare("mk_" + n, *decl)
            _DT_CACHE[n] = d.create()
        return _DT_CACHE[n]

    def _f(self, k):
        return f"{self.name}__{k}"

    def _h(self, k):
        return f"{self.name}__has_{k}"

    def get(self, t, k):
        return getattr(self.sort(), self._f(k))(t)

    def has(self, t, k):
        if not self.index[k][1]:
            return z3.BoolVal(True)
        return getattr(self.sort(), self._h(k))(t)

    def mk(self, vals: dict, has: dict | None = None):
        args = []
        for k, t, o in self.fields:
            if k in vals:
                args.append(vals[k])
            else:
                # canonical value for an absent optional field (its value is unobservable: every read is guarded)
                args.append(z3.Const("absent_" + _sort_name(t), t.sort()))
            if o:
                h = (has or {}).get(k, k in vals)
                args.append(z3.BoolVal(h) if isinstance(h, bool) else h)
        return getattr(self.sort(), "mk_R_" + self.name)(*args)

    def __repr__(self):
        return "Rec:" + self.name


def _sort_name(t: Ty) -> str:
    if isinstance(t, TInt):
        return "I"
    if isinstance(t, TBool):
        return "B"
    if isinstance(t, TStr):
        return "S"
    if isinstance(t, TSeq):
        return "L" + _sort_name(t.elem)
    if isinstance(t, TOpt):
        return "O" + _sort_name(t.elem)
    if isinstance(t, TTuple):
        return "T" + "".join(_sort_name(i) for i in t.items) + "E"
    if isinstance(t, TMap):
        return "M" + _sort_name(t.keyt) + _sort_name(t.val)
    if isinstance(t, TRec):
        return "R" + t.name
    raise EngineUnsupported(f"sort name of {t!r}")


T_INT, T_BOOL, T_STR = TInt(), TBool(), TStr()


# --------------------------------------------------------------------------------------------
# values
# --------------------------------------------------------------------------------------------
class Val:
    pass


@dataclass(eq=False)
class VInt(Val):
    t: Any


@dataclass(eq=False)
class VBool(Val):
    t: Any


@dataclass(eq=False)
class VStr(Val):
    t: Any


class _VNone(Val):
    def __repr__(self):
        return "VNone"


VNone = _VNone()


@dataclass(eq=False)
class VSeq(Val):
    """Immutable sequence value (z3 term)."""
    elem: Ty
    t: Any


@dataclass(eq=False)
class VTuple(Val):
    items: list


@dataclass(eq=False)
class VRec(Val):
    ty: TRec
    t: Any


@dataclass(eq=False)
class VMap(Val):
    ty: "TMap"
    t: Any


@dataclass(eq=False)
class VOpt(Val):
    """A value that is None or elem -- kept symbolic (z3 Opt datatype term)."""
    ty: TOpt
    t: Any


@dataclass(eq=False)
class VRef(Val):
    loc: int


@dataclass(eq=False)
class VFunc(Val):
    """A python function (ast.FunctionDef) possibly bound to a receiver."""
    qualname: str
    node: Any
    self_val: Val | None = None
    cls: str | None = None


@dataclass(eq=False)
class VClass(Val):
    name: str


@dataclass(eq=False)
class VBuiltin(Val):
    name: str
    recv: Val | None = None


@dataclass(eq=False)
class VPy(Val):
    """Opaque python constant (module, etc.)."""
    obj: Any


# heap cells -----------------------------------------------------------------------------------
@dataclass
class ListCell:
    elem: Ty | None          # element type when z3-level
    seq: Any | None          # z3 Seq term (when elem is not None)
    items: list | None = None  # python-level list of Val (when elem is None)
    owner: str = "local"     # 'local' (allocated here) | 'param:<name>' | 'input' (reached through an argument)


@dataclass
class DictCell:
    items: dict              # key -> Val
    present: dict            # key -> z3 Bool | True
    ty: TRec | None = None   # intended record type, if known
    owner: str = "local"


@dataclass
class ObjCell:
    cls: str
    fields: dict             # attr -> Val
    owner: str = "local"
    view: str | None = None  # name of the klass declaration (contract view) this object was created from


@dataclass
class IterCell:
    seq: Any                 # z3 Seq term being iterated
    elem: Ty
    pos: Any                 # z3 Int: next index


_loc_counter = itertools.count(1)


def new_loc() -> int:
    return next(_loc_counter)


# --------------------------------------------------------------------------------------------
# z3 helpers
# --------------------------------------------------------------------------------------------
def mk_str(s: str):
    if not s:
        return z3.Empty(STR)
    units = [z3.Unit(z3.IntVal(ord(c))) for c in s]
    return units[0] if len(units) == 1 else z3.Concat(*units)


def ival(n: int):
    return z3.IntVal(n)


WS_CODEPOINTS = [9, 10, 11, 12, 13, 28, 29, 30, 31, 32, 133, 160, 5760, 8192, 8193, 8194, 8195, 8196, 8197,
                 8198, 8199, 8200, 8201, 8202, 8232, 8233, 8239, 8287, 12288]


def is_space(c):
    """str.isspace on one code point (29 code points; validated against CPython on every run)."""
    return z3.Or(z3.And(c >= 9, c <= 13), z3.And(c >= 28, c <= 32), c == 133, c == 160, c == 5760,
                 z3.And(c >= 8192, c <= 8202), c == 8232, c == 8233, c == 8239, c == 8287, c == 12288)


def is_blank_not_lf(c):
    return z3.And(is_space(c), c != 10)


def fresh(sort, name="v"):
    return z3.FreshConst(sort, name)


def concrete_str(t) -> str | None:
    """If t is a concrete string literal term, return it."""
    t = z3.simplify(t)
    out = []

    def walk(x):
        if z3.is_app(x):
            k = x.decl().kind()
            if k == z3.Z3_OP_SEQ_EMPTY:
                return True
            if k == z3.Z3_OP_SEQ_UNIT:
                a = x.arg(0)
                if z3.is_int_value(a):
                    out.append(chr(a.as_long()))
                    return True
                return False
            if k == z3.Z3_OP_SEQ_CONCAT:
                return all(walk(c) for c in x.children())
        return False

    return "".join(out) if walk(t) else None


def ty_of_val(v: Val) -> Ty:
    if isinstance(v, VInt):
        return T_INT
    if isinstance(v, VBool):
        return T_BOOL
    if isinstance(v, VStr):
        return T_STR
    if isinstance(v, VSeq):
        return TSeq(v.elem)
    if isinstance(v, VRec):
        return v.ty
    if isinstance(v, (VOpt, VMap)):
        return v.ty
    if isinstance(v, VTuple):
        return TTuple([ty_of_val(i) for i in v.items])
    raise EngineUnsupported(f"no z3 type for value {v!r}")


def to_term(v: Val, ty: Ty | None = None):
    """Embed a value into a z3 term of type ty."""
    if ty is None:
        ty = ty_of_val(v)
    if isinstance(ty, TOpt):
        if v is VNone:
            return ty.none()
        if isinstance(v, VOpt):
            return v.t
        return ty.some(to_term(v, ty.elem))
    if isinstance(v, (VInt, VBool, VStr)):
        return v.t
    if isinstance(v, VSeq):
        return v.t
    if isinstance(v, (VRec, VMap)):
        return v.t
    if isinstance(v, VTuple):
        assert isinstance(ty, TTuple), (v, ty)
        return ty.mk([to_term(i, t) for i, t in zip(v.items, ty.items)])
    raise EngineUnsupported(f"cannot embed {v!r} as {ty!r}")


def from_term(t, ty: Ty) -> Val:
    if isinstance(ty, TInt):
        return VInt(t)
    if isinstance(ty, TBool):
        return VBool(t)
    if isinstance(ty, TStr):
        return VStr(t)
    if isinstance(ty, TSeq):
        return VSeq(ty.elem, t)
    if isinstance(ty, TRec):
        return VRec(ty, t)
    if isinstance(ty, TOpt):
        return VOpt(ty, t)
    if isinstance(ty, TMap):
        return VMap(ty, t)
    if isinstance(ty, TTuple):
        return VTuple([from_term(ty.get(t, k), it) for k, it in enumerate(ty.items)])
    raise EngineUnsupported(f"from_term {ty!r}")


def fresh_val(ty: Ty, name="v") -> Val:
    return from_term(fresh(ty.sort(), name), ty)
