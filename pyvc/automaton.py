"""Layer B: the generated state machine (parser.py).

A. Every ``match_token_at_N`` is symbolically executed with the real PyVC executor (loop-free code, fully symbolic
   matcher / look-ahead outcomes, both error modes, EOF and non-EOF tokens): the result is the exact behaviour of
   the function as a finite set of paths (tests made, outcomes, productions, returned state / raised error).
   A loop-free function over full-domain symbolic inputs: this is a complete analysis, not a bounded one.
B. The same tables are extracted textually from the sibling implementations (Java, Go, Ruby, C, TypeScript).
C. A reference transducer is derived from gherkin.berp by an independent position-automaton construction.
"""
from __future__ import annotations

import ast
import itertools
import os
import re

import z3

from .sym import (EngineUnsupported, VInt, VBool, VStr, VNone, VTuple, VRef, VFunc, ObjCell, ListCell, fresh, BOOL,
                  concrete_str, mk_str)
from .executor import Executor, State, Outcome, Raised

KINDS = ["EOF", "Empty", "Comment", "TagLine", "FeatureLine", "RuleLine", "BackgroundLine", "ScenarioLine",
         "ExamplesLine", "StepLine", "DocStringSeparator", "TableRow", "Language", "Other"]


class PathSummary:
    def __init__(self):
        self.tests = []        # [(kind, bool)]   in order of evaluation ('LA0'/'LA1' for look-aheads)
        self.events = []       # [('start', R) | ('end', R) | ('build',)]
        self.result = None     # ('return', n) | ('error', kind_of_error, expected_list, mode) | ('raise-external', kind)

    def key(self):
        return (tuple(self.tests), tuple(self.events), self.result)


def summarize_state(prog, reg, n: int, eof: bool, stop: bool):
    """Symbolically execute Parser.match_token_at_<n>; returns list[PathSummary]."""
    qual = f"gherkin.parser.Parser.match_token_at_{n}"
    fi = prog.func(qual)
    ex = Executor(prog, reg, qual)
    ex.prune = True
    st = State()
    memo = {}

    def outcome_var(name):
        if name not in memo:
            memo[name] = z3.Bool("M_" + name)
        return memo[name]

    parser = st.alloc(ObjCell("Parser", {"stop_at_first_error": VBool(z3.BoolVal(stop)),
                                         "ast_builder": st.alloc(ObjCell("AstBuilder", {}, "input"))}, "input"))
    token = st.alloc(ObjCell("Token", {"$eof": VBool(z3.BoolVal(eof))}, "input"))
    context = st.alloc(ObjCell("ParserContext", {}, "input"))
    st.env = {"self": parser, "token": token, "context": context}
    st.ghost["$cls"] = "Parser"
    hooks = {}

    def ev(s, e):
        s.trace = s.trace + [e]

    for k in KINDS:
        def mk(k):
            def hook(ex_, s, f, env, node):
                # contract of Parser.match_<k> (verified separately, see contracts/b_parser.py):
                #   an EOF token matches nothing but EOF; otherwise the matcher decides; in stop-at-first-error
                #   mode an exception of the matcher (TagLine, Language) propagates.
                if eof and k != "EOF":
                    ev(s, ("test", k, False))
                    return [(s, VBool(z3.BoolVal(False)))]
                if not eof and k == "EOF":
                    ev(s, ("test", k, False))
                    return [(s, VBool(z3.BoolVal(False)))]
                out = []
                v = outcome_var(k)
                for s2, b in ex_.branch(s, v):
                    ev(s2, ("test", k, b))
                    out.append((s2, VBool(z3.BoolVal(b))))
                if stop and k in ("TagLine", "Language"):
                    x = outcome_var("raise_" + k)
                    s3 = s.clone()
                    if ex_.feasible(s3, z3.And(x, z3.Not(v))):
                        s3.assume(z3.And(x, z3.Not(v)), "matcher-raises")
                        ev(s3, ("test", k, "raise"))
                        exc = s3.alloc(ObjCell("ParserException", {"$external": VStr(mk_str(k))}, "local"))
                        out.append((s3, Raised(exc)))
                        for s2, _ in out[:-1]:
                            s2.assume(z3.Not(x), "matcher-does-not-raise")
                return out
            return hook
        hooks[f"gherkin.parser.Parser.match_{k}"] = mk(k)

    for la in (0, 1):
        def mkla(la):
            def hook(ex_, s, f, env, node):
                out = []
                for s2, b in ex_.branch(s, outcome_var(f"LA{la}")):
                    ev(s2, ("test", f"LA{la}", b))
                    out.append((s2, VBool(z3.BoolVal(b))))
                return out
            return hook
        hooks[f"gherkin.parser.Parser.lookahead_{la}"] = mkla(la)

    def h_build(ex_, s, f, env, node):
        if env["token"] is not token:
            raise EngineUnsupported("build() of something other than the current token")
        ev(s, ("build",))
        return [(s, VNone)]

    def h_rule(kind):
        def hook(ex_, s, f, env, node):
            r = concrete_str(env["rule_type"].t)
            if r is None:
                raise EngineUnsupported("non-constant rule type")
            ev(s, (kind, r))
            return [(s, VNone)]
        return hook

    def h_add_error(ex_, s, f, env, node):
        ev(s, ("add_error", env["error"]))
        return [(s, VNone)]

    hooks["gherkin.parser.Parser.build"] = h_build
    hooks["gherkin.parser.Parser.start_rule"] = h_rule("start")
    hooks["gherkin.parser.Parser.end_rule"] = h_rule("end")
    hooks["gherkin.parser.Parser.add_error"] = h_add_error

    def h_exc(cls):
        def hook(ex_, s, f, env, node):
            # constructor of UnexpectedEOFException / UnexpectedTokenException: record the arguments
            exp = env["expected_token_types"]
            items = s.cell(exp).items if isinstance(exp, VRef) else exp.items
            lst = tuple(concrete_str(i.t) for i in items)
            self_obj = env["self"]
            c = s.cell(self_obj)
            s.set_cell(self_obj, ObjCell(c.cls, {"$expected": VTuple(list(items)), "$token": env["received_token"],
                                                 "$state_comment": env["state_comment"]}, c.owner))
            s.ghost = dict(s.ghost)
            s.ghost[f"$exp{self_obj.loc}"] = lst
            return [(s, VNone)]
        return hook
    hooks["gherkin.errors.UnexpectedEOFException.__init__"] = h_exc("UnexpectedEOFException")
    hooks["gherkin.errors.UnexpectedTokenException.__init__"] = h_exc("UnexpectedTokenException")

    def h_eof(ex_, s, f, env, node):
        return [(s, VBool(z3.BoolVal(eof)))]
    hooks["gherkin.token.Token.eof"] = h_eof

    old_hooks = reg.hooks
    reg.hooks = hooks
    try:
        results = ex.exec_block(st, fi.node.body)
    finally:
        reg.hooks = old_hooks
    if ex.obligations:
        bad = [o for o in ex.obligations if not z3.is_true(z3.simplify(o.goal))]
        if bad:
            raise EngineUnsupported(f"state function {n} has unexpected safety obligations: {[o.name for o in bad][:3]}")
    out = []
    for s, oc in results:
        p = PathSummary()
        error_added = None
        for e in s.trace:
            if e[0] == "test":
                p.tests.append((e[1], e[2]))
            elif e[0] == "add_error":
                error_added = e[1]
            else:
                p.events.append(e)

        def describe(exc):
            c = s.cell(exc)
            if "$external" in c.fields:
                return ("external", concrete_str(c.fields["$external"].t))
            if c.fields.get("$token") is not token:
                raise EngineUnsupported("error built for a different token")
            return (c.cls, s.ghost.get(f"$exp{exc.loc}"), concrete_str(c.fields["$state_comment"].t))
        if oc.kind == Outcome.RETURN:
            v = z3.simplify(oc.value.t)
            if not z3.is_int_value(v):
                raise EngineUnsupported("non-constant state returned")
            if error_added is not None:
                p.result = ("error-added", describe(error_added), v.as_long())
            else:
                p.result = ("return", v.as_long())
        elif oc.kind == Outcome.RAISE:
            if error_added is not None:
                raise EngineUnsupported("raise after add_error")
            p.result = ("raise", describe(oc.value))
        else:
            raise EngineUnsupported(f"state function {n} ends without return")
        out.append(p)
    return out


def dispatch_summary(prog, reg, states):
    """Symbolically execute the dispatcher Parser.match_token for every concrete state value (and two values that are not
    states): it must do nothing but call match_token_at_<state>(token, context) once and return its result, and raise for
    an unknown state.  Returns a list of problems (empty = the dispatcher is the plain table dispatch)."""
    qual = "gherkin.parser.Parser.match_token"
    fi = prog.func(qual)
    problems = []
    probe = list(states) + [max(states) + 57, -1]
    for k in probe:
        ex = Executor(prog, reg, qual)
        ex.prune = True
        st = State()
        parser = st.alloc(ObjCell("Parser", {"stop_at_first_error": VBool(z3.Bool("stop_mode")),
                                             "ast_builder": st.alloc(ObjCell("AstBuilder", {}, "input"))}, "input"))
        token = st.alloc(ObjCell("Token", {}, "input"))
        context = st.alloc(ObjCell("ParserContext", {}, "input"))
        st.env = {"self": parser, "token": token, "context": context, "state": VInt(z3.IntVal(k))}
        st.ghost["$cls"] = "Parser"
        hooks = {}

        def ev(s_, e):
            s_.trace = s_.trace + [e]

        for n in states:
            def mk(n):
                def hook(ex_, s_, f, env, node):
                    if env.get("token") is not token or env.get("context") is not context:
                        ev(s_, ("dispatch-with-other-arguments", n))
                    else:
                        ev(s_, ("dispatch", n))
                    return [(s_, VInt(z3.Int(f"next_state_from_{n}")))]
                return hook
            hooks[f"gherkin.parser.Parser.match_token_at_{n}"] = mk(n)
        for name in [f"match_{x}" for x in KINDS] + ["build", "start_rule", "end_rule", "add_error", "read_token",
                                                      "lookahead_0", "lookahead_1"]:
            def mk2(name):
                def hook(ex_, s_, f, env, node):
                    ev(s_, ("side-call", name))
                    return [(s_, VBool(z3.Bool("r_" + name)))]
                return hook
            hooks["gherkin.parser.Parser." + name] = mk2(name)
        old_hooks = reg.hooks
        reg.hooks = hooks
        try:
            results = ex.exec_block(st, fi.node.body)
        finally:
            reg.hooks = old_hooks
        bad_ob = [o for o in ex.obligations if not z3.is_true(z3.simplify(o.goal))]
        if bad_ob:
            raise EngineUnsupported(f"dispatcher has conditional safety obligations: {[o.name for o in bad_ob][:2]}")
        for s_, oc in results:
            if k in states:
                want = [("dispatch", k)]
                got = [e for e in s_.trace]
                if got != want:
                    problems.append(f"state {k}: dispatcher does {got} instead of one call of match_token_at_{k}(token, context)")
                elif oc.kind != Outcome.RETURN or not z3.eq(z3.simplify(oc.value.t), z3.Int(f"next_state_from_{k}")):
                    problems.append(f"state {k}: dispatcher does not return the state function's result")
            else:
                if oc.kind != Outcome.RAISE or s_.trace:
                    problems.append(f"unknown state {k}: dispatcher does {s_.trace or 'not raise'}")
    return problems


def python_table(prog, reg):
    """All state functions, 4 configurations each.  Returns {state: {(eof, stop): [PathSummary]}} and the state list."""
    states = []
    for q in prog.funcs:
        m = re.fullmatch(r"gherkin\.parser\.Parser\.match_token_at_(\d+)", q)
        if m:
            states.append(int(m.group(1)))
    states.sort()
    table = {}
    for n in states:
        table[n] = {}
        for eof in (False, True):
            for stop in (False, True):
                table[n][(eof, stop)] = summarize_state(prog, reg, n, eof, stop)
    return states, table


# ---------------------------------------------------------------------------------------------
# normal form of a state function: ordered decision list
# ---------------------------------------------------------------------------------------------
def decision_list(paths):
    """From the (eof=False, stop=False) paths reconstruct the ordered list of branches:
    [(kind, lookahead or None, events, target)] + error tail (expected list, state).
    Raises EngineUnsupported when the paths do not have the shape of a decision list."""
    branches = []
    tail = None
    for p in sorted(paths, key=lambda p: len(p.tests)):
        if p.result[0] == "return":
            trues = [t for t in p.tests if t[1] is True]
            kinds = [t for t in trues if not t[0].startswith("LA")]
            las = [t for t in trues if t[0].startswith("LA")]
            if not kinds:
                raise EngineUnsupported("return without a successful match")
            k = kinds[-1][0]
            la = las[-1][0] if las and p.tests[-1][0].startswith("LA") else None
            branches.append((k, la, tuple(p.events), p.result[1], tuple(p.tests)))
        elif p.result[0] == "error-added":
            tail = p
    return branches, tail


# ---------------------------------------------------------------------------------------------
# B. sibling tables (textual extraction; a count other than the python one is a CHECKER-ERROR)
# ---------------------------------------------------------------------------------------------
SIBLINGS = {
    "java": ("java/src/main/java/io/cucumber/gherkin/Parser.java", r"int matchTokenAt_(\d+)\("),
    "go": ("go/parser.go", r"func \(ctxt \*parseContext\) matchAt(\d+)\("),
    "ruby": ("ruby/lib/gherkin/parser.rb", r"def match_token_at_state(\d+)\("),
    "c": ("c/src/parser.c", r"static int match_token_at_(\d+)\(Token"),
    "typescript": ("javascript/src/Parser.ts", r"private matchTokenAt_(\d+)\("),
}

_RE_TEST = re.compile(r"\bmatch_?([A-Z]\w+)\(")
_RE_LA = re.compile(r"lookahead_?(\d)\(")
_RE_START = re.compile(r"\bstart_?[Rr]ule\(\s*(?:context|ctxt)?\s*,?\s*(?:Rule_|RuleType\.|RuleType|:)?(\w+)\s*\)")
_RE_END = re.compile(r"\bend_?[Rr]ule\(\s*(?:context|ctxt)?\s*,?\s*(?:Rule_|RuleType\.|RuleType|:)?(\w*)\s*\)")
_RE_BUILD = re.compile(r"\bbuild\(")
_RE_RETURN = re.compile(r"\breturn\s+(\d+)")
_RE_EXPECTED = re.compile(r"\"(#\w+(?:, #\w+)*)\"|\[\s*(\"#\w+\"(?:\s*,\s*\"#\w+\")*)\s*\]|\{\s*(\"#\w+\"(?:\s*,\s*\"#\w+\")*)\s*\}")


def sibling_table(repo, lang):
    rel, header = SIBLINGS[lang]
    path = os.path.join(repo, rel)
    with open(path, encoding="utf8") as f:
        lines = f.read().splitlines()
    hdr = re.compile(header)
    table = {}
    cur = None
    branch = None
    for ln in lines:
        m = hdr.search(ln)
        if m:
            cur = int(m.group(1))
            table[cur] = {"branches": [], "expected": None, "tail_state": None}
            branch = None
            continue
        if cur is None:
            continue
        if re.match(r"\s*(//|#)", ln):
            continue
        t = _RE_TEST.search(ln)
        if t and ("if" in ln or "ok" in ln):
            branch = {"kind": t.group(1), "la": None, "events": []}
            continue
        la = _RE_LA.search(ln)
        if la and branch is not None and ("if" in ln):
            branch["la"] = "LA" + la.group(1)
            continue
        st = _RE_START.search(ln)
        if st and branch is not None:
            branch["events"].append(("start", st.group(1)))
            continue
        en = _RE_END.search(ln)
        if en and branch is not None:
            branch["events"].append(("end", en.group(1) or None))
            continue
        if _RE_BUILD.search(ln) and branch is not None:
            branch["events"].append(("build",))
            continue
        r = _RE_RETURN.search(ln)
        if r:
            if branch is not None:
                table[cur]["branches"].append((branch["kind"], branch["la"], tuple(branch["events"]), int(r.group(1))))
                branch = None
            else:
                if table[cur]["tail_state"] is None:
                    table[cur]["tail_state"] = int(r.group(1))
                    cur = None
            continue
        if "#" in ln and table[cur]["expected"] is None and branch is None:
            toks = re.findall(r"#(\w+)", ln)
            if toks and ("xpected" in ln):
                table[cur]["expected"] = tuple("#" + x for x in toks)
    return table


def python_decision_table(prog, reg):
    """State -> {"branches": [(kind, la, events, target)], "expected": tuple, "tail_state": n} from symbolic execution."""
    states, tbl = python_table(prog, reg)
    out = {}
    for n in states:
        branches, tail = decision_list(tbl[n][(False, False)])
        eofb, eoft = decision_list(tbl[n][(True, False)])
        allb = []
        # EOF branches are tested first in every state that has one (order recorded from the tests of the non-eof run)
        order = [k for k, _ in max((p.tests for p in tbl[n][(False, False)]), key=len)]
        seen = []
        for k in order:
            if k not in seen and not k.startswith("LA"):
                seen.append(k)
        bmap = {}
        for b in branches + eofb:
            bmap.setdefault(b[0], []).append(b)
        for k in seen:
            for b in sorted(bmap.get(k, []), key=lambda b: len(b[4])):
                allb.append((b[0], b[1], b[2], b[3]))
        out[n] = {"branches": allb,
                  "expected": tail.result[1][1] if tail else None,
                  "tail_state": tail.result[2] if tail else None,
                  "tail_class": tail.result[1][0] if tail else None}
    return states, tbl, out


def compare_with_sibling(py, sib, lang):
    """List of differences between the python decision table and a sibling's."""
    diffs = []
    if sorted(py) != sorted(sib):
        diffs.append(f"{lang}: state sets differ: python-only {sorted(set(py) - set(sib))}, {lang}-only {sorted(set(sib) - set(py))}")
    for n in sorted(set(py) & set(sib)):
        a, b = py[n], sib[n]
        if len(a["branches"]) != len(b["branches"]):
            diffs.append(f"{lang}: state {n}: {len(a['branches'])} transitions in python, {len(b['branches'])} in {lang}")
            continue
        for i, (x, y) in enumerate(zip(a["branches"], b["branches"])):
            ex_ = tuple(e if e[0] != "end" or all(e2[0] != "end" or e2[1] for e2 in y[2]) else ("end", None) for e in x[2])
            if (x[0], x[1], ex_, x[3]) != y:
                diffs.append(f"{lang}: state {n} transition {i}: python {x} vs {lang} {y}")
        if a["expected"] != b["expected"]:
            diffs.append(f"{lang}: state {n} expected list: python {a['expected']} vs {lang} {b['expected']}")
        if a["tail_state"] != b["tail_state"]:
            diffs.append(f"{lang}: state {n} error tail returns {a['tail_state']} in python, {b['tail_state']} in {lang}")
    return diffs


from .grammar import *  # noqa: F401,F403  (Reference, LINE_KINDS, ORACLES, parse_berp ...)
from .grammar import Reference, LINE_KINDS, ORACLES


def py_step(entry, kinds, oracle):
    """Semantics of a python state's decision list on a line with the given kind set and look-ahead oracle."""
    for kind, la, events, target in entry["branches"]:
        if kind not in kinds:
            continue
        if la is not None:
            want = {"LA0": "ScenarioLine", "LA1": "ExamplesLine"}[la]
            if oracle != want:
                continue
        return ("go", events, target)
    return ("error", entry["expected"])


def bisimulate(py, ref: Reference, la_targets=None):
    """Explore the product of the python table and the reference transducer.  Returns (pairs, steps, mismatches)."""
    start = (0, ref.start)
    seen = {start: None}
    todo = [start]
    mismatches = []
    steps = 0
    final_py = 34
    while todo:
        pair = todo.pop()
        n, pos = pair
        if n == final_py:
            continue
        if n not in py:
            mismatches.append({"pair": pair, "what": f"python state {n} does not exist"})
            continue
        for lname, kinds in LINE_KINDS:
            for oracle in ORACLES:
                if "TagLine" not in kinds and oracle is not None:
                    continue
                steps += 1
                a = py_step(py[n], kinds, oracle)
                b = ref.step(pos, kinds, oracle)
                if b[0] == "ignored":
                    b = ("go", (("build",),), pos)
                if a[0] != b[0]:
                    mismatches.append({"pair": pair, "line": lname, "oracle": oracle, "python": a, "reference": b})
                    continue
                if a[0] == "error":
                    if tuple(x.lstrip("#") for x in a[1]) != tuple(b[1]) and \
                            sorted(x.lstrip("#") for x in a[1]) != sorted(list(b[1]) + (ref.ignored if not any(
                                o.kind == "Other" for o in ref.follow[pos]) else [])):
                        mismatches.append({"pair": pair, "line": lname, "what": "expected lists differ",
                                           "python": a[1], "reference": b[1]})
                    continue
                if tuple(a[1]) != tuple(b[1]):
                    mismatches.append({"pair": pair, "line": lname, "oracle": oracle, "what": "events differ",
                                       "python": a[1], "reference": b[1]})
                    continue
                nxt = (a[2], b[2])
                if nxt not in seen:
                    seen[nxt] = (pair, lname, oracle)
                    todo.append(nxt)
    return seen, steps, mismatches


def path_to(seen, pair):
    """Shortest discovered sequence of (line kind, oracle) leading from the start to `pair`."""
    path = []
    while seen.get(pair) is not None:
        prev, lname, oracle = seen[pair]
        path.append((lname, oracle))
        pair = prev
    return path[::-1]


def stack_discipline(py, seen):
    """Every reachable python state has a unique rule stack; every end(X) pops an X.  Returns (stacks, problems)."""
    stacks = {0: ("GherkinDocument",)}
    todo = [0]
    problems = []
    while todo:
        n = todo.pop()
        if n not in py:
            continue
        for kind, la, events, target in py[n]["branches"]:
            st = list(stacks[n])
            ok = True
            for e in events:
                if e[0] == "start":
                    st.append(e[1])
                elif e[0] == "end":
                    if not st or st[-1] != e[1]:
                        problems.append(f"state {n} --{kind}--> {target}: end_rule({e[1]}) with stack {st}")
                        ok = False
                        break
                    st.pop()
            if not ok:
                continue
            st = tuple(st)
            if target in stacks:
                if stacks[target] != st:
                    problems.append(f"state {target} reached with stacks {stacks[target]} and {st} (from {n} on {kind})")
            else:
                stacks[target] = st
                todo.append(target)
    return stacks, problems
