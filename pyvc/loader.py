"""Loads the real source of /repo/python/gherkin on every run (no copy, no model).

What the reader drops (documented in DESIGN.md section 3.2): comments, docstrings, type annotations
(except TypedDict class bodies, read mechanically into record types, and parameter annotations used
as typing hints), ``from __future__`` imports, ``TYPE_CHECKING`` blocks and ``@overload`` stubs.
"""
from __future__ import annotations

import ast
import hashlib
import os

REPO = os.environ.get("VERIF_REPO", "/repo")
PKG = os.path.join(REPO, "python", "gherkin")

MODULES = {
    "gherkin.gherkin_line": "gherkin_line.py",
    "gherkin.token_scanner": "token_scanner.py",
    "gherkin.token": "token.py",
    "gherkin.errors": "errors.py",
    "gherkin.token_matcher": "token_matcher.py",
    "gherkin.token_matcher_markdown": "token_matcher_markdown.py",
    "gherkin.ast_node": "ast_node.py",
    "gherkin.ast_builder": "ast_builder.py",
    "gherkin.parser": "parser.py",
    "gherkin.parser_types": "parser_types.py",
    "gherkin.dialect": "dialect.py",
    "gherkin.token_formatter_builder": "token_formatter_builder.py",
    "gherkin.pickles.compiler": "pickles/compiler.py",
    "gherkin.stream.gherkin_events": "stream/gherkin_events.py",
    "gherkin.stream.source_events": "stream/source_events.py",
    "gherkin.stream.id_generator": "stream/id_generator.py",
}


class FuncInfo:
    def __init__(self, module, cls, name, node, path):
        self.module = module
        self.cls = cls
        self.name = name
        self.node = node
        self.path = path
        self.decorators = [ast.unparse(d) for d in node.decorator_list]

    @property
    def qualname(self):
        return f"{self.module}.{self.cls}.{self.name}" if self.cls else f"{self.module}.{self.name}"

    @property
    def is_static(self):
        return "staticmethod" in self.decorators

    @property
    def is_classmethod(self):
        return "classmethod" in self.decorators

    @property
    def is_property(self):
        return "property" in self.decorators

    def fingerprint(self):
        """Structure fingerprint: sequence of statement kinds and loop nesting, names/constants ignored."""
        out = []

        def walk(stmts, depth):
            for s in stmts:
                if isinstance(s, ast.Expr) and isinstance(s.value, ast.Constant) and isinstance(s.value.value, str):
                    continue
                out.append(f"{depth}{type(s).__name__}")
                for fld in ("body", "orelse", "handlers", "finalbody"):
                    sub = getattr(s, fld, None)
                    if sub:
                        if fld == "handlers":
                            for h in sub:
                                walk(h.body, depth + 1)
                        else:
                            walk(sub, depth + 1)

        walk(self.node.body, 0)
        return hashlib.sha256(" ".join(out).encode()).hexdigest()[:16]

    def locals_order(self):
        """Local names in order of their first binding (parameters excluded)."""
        params = {a.arg for a in self.node.args.args + self.node.args.kwonlyargs}
        if self.node.args.vararg:
            params.add(self.node.args.vararg.arg)
        if self.node.args.kwarg:
            params.add(self.node.args.kwarg.arg)
        out = []
        for n in ast.walk(self.node):
            pass
        # ast.walk is breadth-first; first *textual* binding is what is wanted: sort Store occurrences by position
        occ = [(n.lineno, n.col_offset, n.id) for n in ast.walk(self.node)
               if isinstance(n, ast.Name) and isinstance(n.ctx, ast.Store) and n.id not in params]
        for _l, _c, name in sorted(occ):
            if name not in out:
                out.append(name)
        return out

    def alpha_hash(self):
        """Hash of the function with its local names replaced by their binding position: equal for two versions of a
        function that differ only by a consistent renaming of locals."""
        order = {n: i for i, n in enumerate(self.locals_order())}
        import copy as _copy
        node = _copy.deepcopy(self.node)
        for n in ast.walk(node):
            if isinstance(n, ast.Name) and n.id in order:
                n.id = f"$L{order[n.id]}"
        return hashlib.sha256(ast.dump(node).encode()).hexdigest()[:16]

    def source_hash(self):
        return hashlib.sha256(ast.dump(self.node).encode()).hexdigest()[:16]

    def vc_hash(self, prog):
        """Hash of everything in the repository the verification conditions of this function are generated from:
        the function body, the class-level assignments of its class hierarchy, the module constants and the
        TypedDict declarations.  (Callees enter only through their contracts, which live in /verif.)"""
        h = hashlib.sha256()
        h.update(ast.dump(self.node).encode())
        cls = self.cls
        seen = set()
        while cls and cls in prog.classes and cls not in seen:
            seen.add(cls)
            ci = prog.classes[cls]
            for k in sorted(ci.class_attrs):
                h.update(k.encode() + ast.dump(ci.class_attrs[k]).encode())
            h.update(",".join(ci.bases).encode())
            cls = next((b for b in ci.bases if b in prog.classes), None)
        for k, v in sorted(prog.module_consts.get(self.module, {}).items()):
            h.update(k.encode() + ast.dump(v).encode())
        for name in sorted(prog.typed_dict_defs):
            for m, node in prog.typed_dict_defs[name]:
                h.update(ast.dump(node).encode())
        return h.hexdigest()[:20]


class ClassInfo:
    def __init__(self, module, name, node):
        self.module = module
        self.name = name
        self.node = node
        self.bases = [ast.unparse(b) for b in node.bases]
        self.methods: dict[str, FuncInfo] = {}
        self.class_attrs: dict[str, ast.expr] = {}


class Program:
    def __init__(self, repo=None):
        self.repo = repo or REPO
        self.pkg = os.path.join(self.repo, "python", "gherkin")
        self.trees: dict[str, ast.Module] = {}
        self.sources: dict[str, str] = {}
        self.funcs: dict[str, FuncInfo] = {}
        self.classes: dict[str, ClassInfo] = {}       # by bare class name (unique in this code base)
        self.module_consts: dict[str, dict[str, ast.expr]] = {}
        self.typed_dicts: dict[str, ast.ClassDef] = {}      # bare name -> first definition (compat)
        self.typed_dict_defs: dict[str, list] = {}          # bare name -> [(module, node)]
        self.imports: dict[str, dict[str, str]] = {}        # module -> {name: source module}
        for mod, rel in MODULES.items():
            path = os.path.join(self.pkg, rel)
            with open(path, encoding="utf8") as f:
                src = f.read()
            self.sources[mod] = src
            tree = ast.parse(src, filename=path)
            self.trees[mod] = tree
            self._index(mod, tree, path)

    def _index(self, mod, tree, path):
        consts = self.module_consts.setdefault(mod, {})
        imps = self.imports.setdefault(mod, {})
        for node in tree.body:
            if isinstance(node, ast.ImportFrom) and node.module:
                base = mod.rsplit(".", 1)[0] if node.level else ""
                for _ in range(max(node.level - 1, 0)):
                    base = base.rsplit(".", 1)[0]
                src = (base + "." + node.module) if node.level else node.module
                for a in node.names:
                    imps[a.asname or a.name] = src
            if isinstance(node, ast.FunctionDef):
                if any(ast.unparse(d) == "overload" for d in node.decorator_list):
                    continue
                fi = FuncInfo(mod, None, node.name, node, path)
                self.funcs[fi.qualname] = fi
            elif isinstance(node, ast.ClassDef):
                bases = [ast.unparse(b) for b in node.bases]
                if "TypedDict" in bases or any(b in self.typed_dict_defs for b in bases):
                    self.typed_dicts.setdefault(node.name, node)
                    self.typed_dict_defs.setdefault(node.name, []).append((mod, node))
                    continue
                ci = ClassInfo(mod, node.name, node)
                self.classes[node.name] = ci
                for sub in node.body:
                    if isinstance(sub, ast.FunctionDef):
                        if any(ast.unparse(d) == "overload" for d in sub.decorator_list):
                            continue
                        fi = FuncInfo(mod, node.name, sub.name, sub, path)
                        ci.methods[sub.name] = fi
                        self.funcs[fi.qualname] = fi
                    elif isinstance(sub, ast.Assign) and len(sub.targets) == 1 and isinstance(sub.targets[0], ast.Name):
                        ci.class_attrs[sub.targets[0].id] = sub.value
                    elif isinstance(sub, ast.ClassDef):
                        # nested class (GherkinEvents.Options): index as Outer.Inner
                        nci = ClassInfo(mod, node.name + "." + sub.name, sub)
                        self.classes[nci.name] = nci
            elif isinstance(node, ast.Assign) and len(node.targets) == 1 and isinstance(node.targets[0], ast.Name):
                consts[node.targets[0].id] = node.value
                # functional TypedDict("Name", {...})
                v = node.value
                if isinstance(v, ast.Call) and ast.unparse(v.func) == "TypedDict":
                    self.typed_dicts.setdefault(node.targets[0].id, node)
                    self.typed_dict_defs.setdefault(node.targets[0].id, []).append((mod, node))

    # lookup helpers --------------------------------------------------------------------------
    def find_method(self, cls: str, name: str) -> FuncInfo | None:
        seen = set()
        while cls and cls not in seen:
            seen.add(cls)
            ci = self.classes.get(cls)
            if ci is None:
                return None
            if name in ci.methods:
                return ci.methods[name]
            nxt = None
            for b in ci.bases:
                if b in self.classes:
                    nxt = b
                    break
            cls = nxt
        return None

    def find_class_attr(self, cls: str, name: str):
        seen = set()
        while cls and cls not in seen:
            seen.add(cls)
            ci = self.classes.get(cls)
            if ci is None:
                return None
            if name in ci.class_attrs:
                return ci.class_attrs[name]
            nxt = None
            for b in ci.bases:
                if b in self.classes:
                    nxt = b
                    break
            cls = nxt
        return None

    def assigns_instance_attr(self, cls: str, name: str) -> bool:
        """True if some method of the class (or of a base class in the program) stores to `self.<name>`: the attribute
        exists on instances even if a ghost view of the class does not declare it."""
        seen = set()
        while cls and cls not in seen:
            seen.add(cls)
            ci = self.classes.get(cls)
            if ci is None:
                return True        # unknown base: cannot exclude it
            for n in ast.walk(ci.node):
                if isinstance(n, ast.Attribute) and n.attr == name and isinstance(n.ctx, ast.Store) \
                        and isinstance(n.value, ast.Name) and n.value.id == "self":
                    return True
            nxt = None
            for b in ci.bases:
                if b in self.classes:
                    nxt = b
                    break
                if b not in ("object", "Exception"):
                    return True
            cls = nxt
        return False

    def is_subclass(self, cls: str, base: str) -> bool:
        seen = set()
        while cls and cls not in seen:
            if cls == base:
                return True
            seen.add(cls)
            ci = self.classes.get(cls)
            if ci is None:
                return False
            nxt = None
            for b in ci.bases:
                if b == base:
                    return True
                if b in self.classes:
                    nxt = b
                    break
            cls = nxt
        return False

    def func(self, qualname: str) -> FuncInfo:
        if qualname not in self.funcs:
            raise KeyError(f"function {qualname} not found in the current tree")
        return self.funcs[qualname]
