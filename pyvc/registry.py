"""Contract registry and the contract-dependent parts of the executor:
sidecar parsing, typing environment, call resolution (contract / inline / builtin), loop cutting,
comprehensions, spec builtins, quantifier bookkeeping.
"""
from __future__ import annotations

import ast
import os
from dataclasses import dataclass, field
from typing import Any

import z3

from . import solve
from .sym import (EngineUnsupported, VInt, VBool, VStr, VNone, VSeq, VTuple, VRec, VOpt, VRef, VFunc, VClass, VMap, TMap,
                  VBuiltin, VPy, Val, ListCell, DictCell, ObjCell, IterCell, TInt, TBool, TStr, TSeq, TOpt, TTuple,
                  TRec, Ty, T_INT, T_BOOL, T_STR, STR, INT, BOOL, mk_str, ival, fresh, fresh_val, to_term,
                  from_term, ty_of_val, new_loc, concrete_str, is_space, is_blank_not_lf)
from .executor import Executor, State, Outcome, Raised, Obligation
from . import strings

CONTRACT_DIR = os.path.join(os.path.dirname(os.path.dirname(os.path.abspath(__file__))), "contracts")


# ---------------------------------------------------------------------------------------------
@dataclass
class Clause:
    name: str
    fn: ast.Lambda
    serves: list


@dataclass
class RaiseClause:
    exc: str
    when: ast.Lambda | None       # raised if and only if this pre-state condition holds
    ensures: list
    serves: list
    only_if: ast.Lambda | None = None   # may be raised only if this pre-state condition holds


@dataclass
class LoopContract:
    invariant: list
    variant: ast.Lambda | None = None
    types: dict = field(default_factory=dict)
    modifies: list = field(default_factory=list)
    serves: list = field(default_factory=list)


@dataclass
class Contract:
    qualname: str
    args: dict
    requires: list
    returns: Any
    ensures: list
    raises: list
    modifies: list
    loops: dict
    inline: bool = False
    trusted: bool = False
    generator: bool = False
    variants: list = field(default_factory=list)
    serves: list = field(default_factory=list)
    abstract: bool = False        # interface contract without a body to verify (e.g. builder callbacks)
    pure: bool = False
    dict_hint: str = ""          # record type to prefer when a dict literal's keys fit several record types
    result_is: Any = None         # lambda over the arguments: the result is exactly this spec expression (functional contract)
    bounded_only: str = ""     # non-empty: the proof is not attempted; reason; only the bounded stand-in runs
    standin: str = ""          # name prefix of the finite / bounded enumeration (pyvc/finite.py) that stands in for the proof
    file: str = ""
    notes: str = ""


@dataclass
class KlassDecl:
    name: str
    fields: dict                  # attr -> type expr (ast)
    invariant: list               # list[Clause] over (self)
    record: bool = True           # objects of this class can be frozen into a record value
    of: str | None = None         # real class this declaration is a (ghost) view of


class Registry:
    def __init__(self, program):
        self.prog = program
        self.contracts: dict[str, Contract] = {}
        self.klasses: dict[str, KlassDecl] = {}
        self.records: dict[str, TRec] = {}
        self.spec_funcs: dict[str, ast.FunctionDef] = {}
        self.spec_consts: dict[str, ast.expr] = {}
        self.lemmas: list = []
        self.fold_cache: dict = {}
        self.fold_defs: dict = {}
        self.map_defs: dict = {}
        self.spec_memo: dict = {}
        self.specialisations = 0
        self.map_cache: dict = {}
        self.uf_cache: dict = {}
        self.qfacts: list = []        # quantified facts registered for instantiation
        self.hooks: dict = {}
        self._class_rec: dict[str, TRec] = {}
        self._load_typed_dicts()
        for fn in sorted(os.listdir(CONTRACT_DIR)):
            if fn.endswith(".py") and not fn.startswith("_"):
                self._load_sidecar(os.path.join(CONTRACT_DIR, fn))
        for extra in filter(None, os.environ.get("PYVC_EXTRA_CONTRACTS", "").split(":")):
            self._load_sidecar(extra)          # development only: a sidecar not yet moved into contracts/
        sp = os.path.join(CONTRACT_DIR, "specs")
        if os.path.isdir(sp):
            for fn in sorted(os.listdir(sp)):
                if fn.endswith(".py") and not fn.startswith("_"):
                    self._load_specs(os.path.join(sp, fn))

    # ------------------------------------------------------------------ typed dicts -> records
    def _load_typed_dicts(self):
        """TypedDict classes of the repository are read mechanically into record types (on demand)."""
        self._td_building = set()
        self._struct: dict = {}
        self._rec_by_node: dict = {}
        self._optional_overrides: dict = {}
        self._pending_records: list = []

    def _td_lookup(self, name: str, module: str | None):
        """Resolve a TypedDict name in the context of a module: own definition, imported one, or unique."""
        if "." in name:                       # DSL form "gherkin_line.Cell"
            modsuffix, bare = name.rsplit(".", 1)
            for m, node in self.prog.typed_dict_defs.get(bare, []):
                if m.endswith(modsuffix):
                    return m, node
            return None
        defs = self.prog.typed_dict_defs.get(name, [])
        if not defs:
            return None
        if module is not None:
            for m, node in defs:
                if m == module:
                    return m, node
            src = self.prog.imports.get(module, {}).get(name)
            if src is not None:
                for m, node in defs:
                    if m == src or m.endswith(src.lstrip(".")):
                        return m, node
        return defs[0]

    def record(self, name: str, module: str | None = None) -> TRec | None:
        for rn, kw in list(self._pending_records):
            if rn == name and rn not in self.records:
                opt = {x.value for x in kw["optional"].elts} if "optional" in kw else set()
                flds = [(k.arg, self.value_type(self.parse_type(k.value)), k.arg in opt) for k in kw["fields"].keywords]
                self.records[rn] = TRec(rn, flds)
        if name in self.records and "." not in name and len(self.prog.typed_dict_defs.get(name, [])) <= 1:
            return self.records[name]
        if name == "Envelope":
            return self.envelope_type()
        if name == "Rule":
            return self.rule_record()
        found = self._td_lookup(name, module)
        if found is None:
            return self.records.get(name)
        mod, node = found
        if id(node) in self._rec_by_node:
            return self._rec_by_node[id(node)]
        bare = name.rsplit(".", 1)[-1]
        if id(node) in self._td_building:
            raise EngineUnsupported(f"recursive TypedDict {name}")
        self._td_building.add(id(node))
        fields = []
        if isinstance(node, ast.ClassDef):
            for b in node.bases:
                bn = ast.unparse(b)
                if bn != "TypedDict":
                    base = self.record(bn, mod)
                    if base is not None:
                        fields.extend(base.fields)
            for s in node.body:
                if isinstance(s, ast.AnnAssign) and isinstance(s.target, ast.Name):
                    ty, opt = self._td_field_type(s.annotation, mod)
                    fields = [f for f in fields if f[0] != s.target.id] + [(s.target.id, ty, opt)]
        else:  # functional form TypedDict("N", {...})
            d = node.value.args[1]
            for k, v in zip(d.keys, d.values):
                ty, opt = self._td_field_type(v, mod)
                fields.append((k.value, ty, opt))
        self._td_building.discard(id(node))
        if not fields and isinstance(node, ast.ClassDef):
            # an empty TypedDict with TypedDict subclasses is a union: one record with the subclasses' keys, all optional
            for sub, defs in self.prog.typed_dict_defs.items():
                for m2, n2 in defs:
                    if isinstance(n2, ast.ClassDef) and any(ast.unparse(b) == bare for b in n2.bases) and m2 == mod:
                        for s2 in n2.body:
                            if isinstance(s2, ast.AnnAssign) and isinstance(s2.target, ast.Name):
                                ty, _ = self._td_field_type(s2.annotation, m2)
                                fields.append((s2.target.id, ty, True))
        ov = self._optional_overrides.get(bare, set())
        if ov:
            fields = [(k, t, (o or k in ov)) for k, t, o in fields]
        skey = tuple((k, t, o) for k, t, o in fields)
        if skey in self._struct and fields:
            r = self._struct[skey]                 # structurally identical records are one type
        else:
            ambiguous = len(self.prog.typed_dict_defs.get(bare, [])) > 1
            rname = (mod.rsplit(".", 1)[-1] + "_" + bare) if ambiguous else bare
            r = TRec(rname, fields)
            if fields:
                self._struct[skey] = r
            self.records.setdefault(rname, r)
        self._rec_by_node[id(node)] = r
        return r

    def _td_field_type(self, ann, module=None):
        opt = False
        if isinstance(ann, ast.Subscript) and ast.unparse(ann.value) == "NotRequired":
            opt = True
            ann = ann.slice
        ty = self.type_from_annotation(ann, module)
        if ty is None:
            raise EngineUnsupported(f"TypedDict field type {ast.unparse(ann)}")
        return ty, opt

    def type_from_annotation(self, ann, module=None) -> Ty | None:
        """Mechanical reading of a type annotation; None when it says nothing usable."""
        if ann is None:
            return None
        if isinstance(ann, ast.Constant) and isinstance(ann.value, str):
            try:
                ann = ast.parse(ann.value, mode="eval").body
            except SyntaxError:
                return None
        if isinstance(ann, ast.Name):
            n = ann.id
            if n == "str":
                return T_STR
            if n == "int":
                return T_INT
            if n == "bool":
                return T_BOOL
            if n in self.prog.typed_dict_defs or n in self.records:
                return self.record(n, module)
            if n in self.klasses:
                return self.class_record(n)
            return None
        if isinstance(ann, ast.Subscript):
            base = ast.unparse(ann.value)
            if base in ("list", "Sequence", "Iterable", "List"):
                el = self.type_from_annotation(ann.slice, module)
                return TSeq(el) if el is not None else None
            if base == "tuple" and isinstance(ann.slice, ast.Tuple):
                items = [self.type_from_annotation(x, module) for x in ann.slice.elts]
                return TTuple(items) if all(i is not None for i in items) else None
            return None
        if isinstance(ann, ast.BinOp) and isinstance(ann.op, ast.BitOr):
            l, r = ann.left, ann.right
            if isinstance(r, ast.Constant) and r.value is None:
                t = self.type_from_annotation(l, module)
                return TOpt(t) if t is not None else None
            if isinstance(l, ast.Constant) and l.value is None:
                t = self.type_from_annotation(r, module)
                return TOpt(t) if t is not None else None
        return None

    def envelope_type(self) -> TRec:
        """``Envelope`` (children of a feature / rule): one record with optional background / scenario / rule keys,
        read from the three *Envelope TypedDict subclasses of parser_types.py."""
        if "Envelope" in self.records:
            return self.records["Envelope"]
        fields = []
        for sub in ("BackgroundEnvelope", "ScenarioEnvelope", "RuleEnvelope"):
            node = self.prog.typed_dicts.get(sub)
            if node is None:
                continue
            for s in node.body:
                if isinstance(s, ast.AnnAssign):
                    if s.target.id == "rule":
                        # a rule's own children never contain rules (grammar); avoids a recursive sort
                        fields.append(("rule", self.rule_record(), True))
                    else:
                        fields.append((s.target.id, self.type_from_annotation(s.annotation, "gherkin.parser_types"), True))
        r = TRec("Envelope", fields)
        self.records["Envelope"] = r
        return r

    def rule_record(self) -> TRec:
        if "Rule" in self.records:
            return self.records["Rule"]
        node = self.prog.typed_dicts["Rule"]
        fields = []
        for s in node.body:
            if isinstance(s, ast.AnnAssign):
                if s.target.id == "children":
                    fields.append(("children", TSeq(self.rule_child_record()), False))
                else:
                    ty, opt = self._td_field_type(s.annotation, "gherkin.parser_types")
                    fields.append((s.target.id, ty, opt))
        r = TRec("Rule", fields)
        self.records["Rule"] = r
        return r

    def rule_child_record(self) -> TRec:
        if "RuleChild" in self.records:
            return self.records["RuleChild"]
        fields = []
        for sub in ("BackgroundEnvelope", "ScenarioEnvelope"):
            node = self.prog.typed_dicts[sub]
            for s in node.body:
                if isinstance(s, ast.AnnAssign):
                    fields.append((s.target.id, self.type_from_annotation(s.annotation, "gherkin.parser_types"), True))
        r = TRec("RuleChild", fields)
        self.records["RuleChild"] = r
        return r

    def record_for_keys(self, keys: set) -> TRec | None:
        """Find the unique record type whose required keys are included and whose keys include `keys`."""
        cands = []
        allrecs = []
        for name, defs in self.prog.typed_dict_defs.items():
            for m, node in defs:
                try:
                    allrecs.append(self.record(name, m))
                except (EngineUnsupported, KeyError):
                    continue
        for r in allrecs + list(self.records.values()):
            if r is None or not r.fields:
                continue
            allk = {k for k, _, _ in r.fields}
            req = {k for k, _, o in r.fields if not o}
            if keys <= allk and req <= keys:
                cands.append(r)
        uniq = {c.name: c for c in cands}
        if len(uniq) == 1:
            return list(uniq.values())[0]
        hint = getattr(self, "dict_hint", None)
        if hint and hint in uniq:
            return uniq[hint]
        # prefer exact key match
        exact = [c for c in uniq.values() if {k for k, _, _ in c.fields} == keys]
        if len(exact) == 1:
            return exact[0]
        return None

    def class_record(self, cls: str) -> TRec | None:
        if cls in self._class_rec:
            return self._class_rec[cls]
        kd = self.klasses.get(cls) or self.klass_of(cls)
        if kd is None:
            return None
        fields = []
        for k, tx in kd.fields.items():
            ty = self.value_type(self.parse_type(tx))
            if ty is None:
                return None
            fields.append((k, ty, False))
        r = TRec("C_" + kd.name, fields)
        r.cls = kd.of or kd.name
        r.view = kd.name
        self._class_rec[cls] = r
        self._class_rec[kd.name] = r
        return r

    def value_type(self, t):
        """z3-level value type corresponding to a (possibly heap-shaped) DSL type."""
        if isinstance(t, Ty):
            return t
        if isinstance(t, tuple):
            if t[0] == "obj":
                return self.class_record(t[1])
            if t[0] == "list":
                return TSeq(t[1])
            if t[0] == "dict":
                return t[1]
            if t[0] == "pytuple":
                items = [self.value_type(x) for x in t[1]]
                return TTuple(items) if all(i is not None for i in items) else None
            if t[0] == "opt":
                inner = self.value_type(t[1])
                return TOpt(inner) if inner is not None else None
        return None

    # ------------------------------------------------------------------ sidecar parsing
    def _load_sidecar(self, path):
        with open(path, encoding="utf8") as f:
            tree = ast.parse(f.read(), filename=path)
        # module-level constants of the sidecar (lists of strings / strings), usable in `modifies`
        self._consts = {}
        for node in tree.body:
            if isinstance(node, ast.Assign) and len(node.targets) == 1 and isinstance(node.targets[0], ast.Name):
                try:
                    self._consts[node.targets[0].id] = ast.literal_eval(node.value)
                except Exception:
                    pass
        for node in tree.body:
            if isinstance(node, ast.Expr) and isinstance(node.value, ast.Call):
                fn = ast.unparse(node.value.func)
                if fn == "contract":
                    self._parse_contract(node.value, path)
                elif fn == "contract_family":
                    kw = self._kw(node.value)
                    names = [x.value for x in kw["names"].elts]
                    src = ast.unparse(kw["template"])
                    for nm in names:
                        x, _, k = nm.partition(":")
                        call = ast.parse(src.replace("$X", x).replace("$K", k), mode="eval").body
                        self._parse_contract(call, path)
                elif fn == "klass":
                    self._parse_klass(node.value)
                elif fn == "record":
                    kw = self._kw(node.value)
                    self._pending_records.append((node.value.args[0].value, kw))
                elif fn == "record_override":
                    kw = self._kw(node.value)
                    self._optional_overrides.setdefault(node.value.args[0].value, set()).update(
                        x.value for x in kw["optional"].elts)
                elif fn == "lemma":
                    self.lemmas.append((node.value, path))
            elif isinstance(node, ast.FunctionDef):
                self._add_spec(node, path)
            elif isinstance(node, ast.Assign) and len(node.targets) == 1 and isinstance(node.targets[0], ast.Name):
                self.spec_consts[node.targets[0].id] = node.value

    def _add_spec(self, node, path):
        """spec functions of all sidecars share one namespace: a second definition of a name would silently change
        the meaning of contracts written against the first (this happened once: step_keywords)"""
        prev = self.spec_funcs.get(node.name)
        if prev is not None and ast.dump(prev) != ast.dump(node) and not node.name.startswith("_"):
            raise ValueError(f"spec function {node.name} defined twice (second definition in {path})")
        self.spec_funcs[node.name] = node

    def _load_specs(self, path):
        with open(path, encoding="utf8") as f:
            tree = ast.parse(f.read(), filename=path)
        for node in tree.body:
            if isinstance(node, ast.FunctionDef):
                self._add_spec(node, path)
            elif isinstance(node, ast.Assign) and len(node.targets) == 1 and isinstance(node.targets[0], ast.Name):
                self.spec_consts[node.targets[0].id] = node.value

    def _kw(self, call: ast.Call):
        return {k.arg: k.value for k in call.keywords}

    def _parse_clauses(self, node, default_serves):
        out = []
        if node is None:
            return out
        elts = node.elts if isinstance(node, (ast.List, ast.Tuple)) else [node]
        for i, e in enumerate(elts):
            if isinstance(e, ast.Lambda):
                out.append(Clause(f"c{i}", e, list(default_serves)))
            elif isinstance(e, ast.Call) and ast.unparse(e.func) == "clause":
                name = e.args[0].value
                fn = e.args[1]
                kw = self._kw(e)
                serves = [x.value for x in kw["serves"].elts] if "serves" in kw else list(default_serves)
                out.append(Clause(name, fn, serves))
            else:
                raise ValueError(f"bad clause {ast.unparse(e)}")
        return out

    def _str_list(self, node):
        """a list of strings written as a literal, a sidecar constant, or a sum of those"""
        if isinstance(node, ast.List):
            return [x.value for x in node.elts]
        if isinstance(node, ast.Name) and isinstance(getattr(self, "_consts", {}).get(node.id), list):
            return list(self._consts[node.id])
        if isinstance(node, ast.BinOp) and isinstance(node.op, ast.Add):
            return self._str_list(node.left) + self._str_list(node.right)
        raise ValueError(f"list of strings expected in sidecar: {ast.unparse(node)}")

    def _parse_contract(self, call: ast.Call, path):
        qual = call.args[0].value
        kw = self._kw(call)
        serves = [x.value for x in kw["serves"].elts] if "serves" in kw else []
        args = {}
        if "args" in kw:
            for k in kw["args"].keywords:
                args[k.arg] = k.value
        loops = {}
        if "loops" in kw:
            for k, v in zip(kw["loops"].keys, kw["loops"].values):
                lkw = self._kw(v)
                lserves = [x.value for x in lkw["serves"].elts] if "serves" in lkw else serves
                loops[k.value] = LoopContract(
                    invariant=self._parse_clauses(lkw.get("invariant"), lserves),
                    variant=lkw.get("variant"),
                    types={a.arg: a.value for a in lkw["types"].keywords} if "types" in lkw else {},
                    modifies=[x.value for x in lkw["modifies"].elts] if "modifies" in lkw else [],
                    serves=lserves)
        raises = []
        if "raises" in kw:
            for r in kw["raises"].elts:
                rkw = self._kw(r)
                rs = [x.value for x in rkw["serves"].elts] if "serves" in rkw else serves
                raises.append(RaiseClause(exc=r.args[0].value, when=rkw.get("when"),
                                          ensures=self._parse_clauses(rkw.get("ensures"), rs), serves=rs,
                                          only_if=rkw.get("only_if")))
        variants = []
        if "variants" in kw:
            for v in kw["variants"].elts:
                variants.append({a.arg: a.value for a in v.keywords})

        def flag(n):
            return n in kw and isinstance(kw[n], ast.Constant) and bool(kw[n].value)
        c = Contract(qualname=qual, args=args, requires=self._parse_clauses(kw.get("requires"), serves),
                     returns=kw.get("returns"), ensures=self._parse_clauses(kw.get("ensures"), serves),
                     raises=raises, modifies=self._str_list(kw["modifies"]) if "modifies" in kw else [],
                     loops=loops, inline=flag("inline"), trusted=flag("trusted"), generator=flag("generator"),
                     variants=variants, serves=serves, abstract=flag("abstract"), pure=flag("pure"), file=path,
                     bounded_only=kw["bounded_only"].value if "bounded_only" in kw else "",
                     standin=kw["standin"].value if "standin" in kw else "",
                     result_is=kw.get("result_is"),
                     dict_hint=kw["dict_hint"].value if "dict_hint" in kw else "",
                     notes=kw["notes"].value if "notes" in kw else "")
        self.contracts[qual] = c

    def _parse_klass(self, call: ast.Call):
        name = call.args[0].value
        kw = self._kw(call)
        fields = {k.arg: k.value for k in kw["fields"].keywords} if "fields" in kw else {}
        inv = self._parse_clauses(kw.get("invariant"), [])
        rec = not ("record" in kw and isinstance(kw["record"], ast.Constant) and kw["record"].value is False)
        of = kw["of"].value if "of" in kw else None
        self.klasses[name] = KlassDecl(name, fields, inv, rec, of)

    # ------------------------------------------------------------------ type expressions of the DSL
    def parse_type(self, tx):
        """DSL type expression (ast) -> Ty, or a marker tuple for heap-allocated shapes:
        ('obj', cls) | ('list', Ty) | ('dict', TRec) | ('none',) | ('opt', inner) | ('fn',)"""
        if isinstance(tx, ast.Name):
            n = tx.id
            if n == "Str":
                return T_STR
            if n == "Int":
                return T_INT
            if n == "Bool":
                return T_BOOL
            if n == "NoneT":
                return ("none",)
            if n == "Fn":
                return ("fn",)
        if isinstance(tx, ast.Constant) and isinstance(tx.value, str):
            n = tx.value
            if n in self.klasses:
                kd = self.klasses[n]
                return ("obj", n)
            if n == "Envelope":
                return self.envelope_type()
            if n == "Rule":
                return self.rule_record()
            if n == "RuleChild":
                return self.rule_child_record()
            r = self.record(n)
            if r is not None:
                return r
            raise ValueError(f"unknown type name {n}")
        if isinstance(tx, ast.Call):
            fn = ast.unparse(tx.func)
            if fn == "ListOf":
                return TSeq(self._as_ty(self.parse_type(tx.args[0])))
            if fn == "MutList":
                return ("list", self._as_ty(self.parse_type(tx.args[0])))
            if fn == "MutDict":
                return ("dict", self.parse_type(tx.args[0]))
            if fn == "TupleOf":
                return TTuple([self._as_ty(self.parse_type(a)) for a in tx.args])
            if fn == "Opt":
                inner = self.parse_type(tx.args[0])
                if isinstance(inner, Ty):
                    return TOpt(inner)
                return ("opt", inner)
            if fn == "MapOf":
                return TMap(self._as_ty(self.parse_type(tx.args[0])), self._as_ty(self.parse_type(tx.args[1])))
            if fn == "Raw":      # an object of the named class before __init__ has run (no fields yet)
                return ("raw", tx.args[0].value)
            if fn == "PyTuple":
                return ("pytuple", [self.parse_type(a) for a in tx.args])
            if fn == "Val":     # immutable record view of a class
                r = self.class_record(tx.args[0].value)
                if r is None:
                    raise ValueError("no record view for class " + tx.args[0].value)
                return r
        raise ValueError(f"bad type expression {ast.unparse(tx)}")

    def _as_ty(self, t):
        if isinstance(t, Ty):
            return t
        if isinstance(t, tuple) and t[0] == "obj":
            r = self.class_record(t[1])
            if r is not None:
                return r
        raise ValueError(f"type {t!r} cannot be an element type")

    def fresh_of(self, ex: Executor, st: State, ty, name: str, owner: str) -> Val:
        if isinstance(ty, Ty):
            return fresh_val(ty, name)
        kind = ty[0]
        if kind == "none":
            return VNone
        if kind == "obj":
            kd = self.klasses[ty[1]]
            flds = {}
            for k, tx in kd.fields.items():
                flds[k] = self.fresh_of(ex, st, self.parse_type(tx), f"{name}.{k}", owner)
            ref = st.alloc(ObjCell(kd.of or ty[1], flds, owner, ty[1]))
            for cl in kd.invariant:
                t = self.spec_eval(ex, st, cl.fn, {"self": ref})
                st.assume(self.as_bool(ex, st, t), f"cinv:{ty[1]}.{cl.name}")
            return ref
        if kind == "list":
            return st.alloc(ListCell(ty[1], fresh(TSeq(ty[1]).sort(), name), None, owner))
        if kind == "dict":
            r: TRec = ty[1]
            items, present = {}, {}
            for k, fty, opt in r.fields:
                items[k] = fresh_val(fty, f"{name}.{k}")
                present[k] = fresh(BOOL, f"{name}.has_{k}") if opt else True
            return st.alloc(DictCell(items, present, r, owner))
        if kind == "fn":
            return VFunc("<abstract>", None, None, None)
        if kind == "raw":
            return st.alloc(ObjCell(ty[1], {}, owner))
        if kind == "pytuple":
            return VTuple([self.fresh_of(ex, st, t, f"{name}.{i}", owner) for i, t in enumerate(ty[1])])
        raise EngineUnsupported(f"fresh value of {ty!r}")

    # ------------------------------------------------------------------ globals
    def lookup_global(self, ex: Executor, name: str):
        if name in self.prog.classes:
            return VClass(name)
        for mod, consts in self.prog.module_consts.items():
            if name in consts and mod == ex_module(ex):
                v = consts[name]
                if isinstance(v, ast.Constant) and isinstance(v.value, (str, int)) and not isinstance(v.value, bool):
                    return VStr(mk_str(v.value)) if isinstance(v.value, str) else VInt(ival(v.value))
        for q, fi in self.prog.funcs.items():
            if fi.cls is None and fi.name == name:
                return VFunc(fi.qualname, fi.node, None, None)
        if name in self.prog.typed_dict_defs:
            return VBuiltin("typeddict:" + name)
        if name in BUILTIN_NAMES:
            return VBuiltin(name)
        if name in ("re", "io", "os", "json", "textwrap", "contextlib"):
            return VPy(name)
        if name in self.spec_funcs:
            return VFunc("spec:" + name, self.spec_funcs[name], None, None)
        if name in SPEC_BUILTINS:
            return VBuiltin("spec:" + name)
        if name in self.spec_consts:
            v = self.spec_consts[name]
            if isinstance(v, ast.Constant) and isinstance(v.value, str):
                return VStr(mk_str(v.value))
            if isinstance(v, ast.Constant) and isinstance(v.value, int):
                return VInt(ival(v.value))
            return None
        if name in ("True", "False"):
            return VBool(z3.BoolVal(name == "True"))
        return None

    def py_attr(self, ex, v: VPy, attr):
        if isinstance(v.obj, tuple) and v.obj[0] == "regex":
            return VBuiltin("regex." + attr, recv=v)
        if isinstance(v.obj, tuple) and v.obj[0] == "rematch":
            return VBuiltin("rematch." + attr, recv=v)
        return VBuiltin(f"{v.obj}.{attr}")

    def class_attr_value(self, ex, st, cls, attr, node):
        if isinstance(node, ast.Constant):
            return ex.eval(st, node)
        if isinstance(node, ast.Call) and ast.unparse(node.func) == "re.compile":
            return [(st, VPy(("regex", node.args[0].value, cls, attr)))]
        raise EngineUnsupported(f"class attribute {cls}.{attr}")

    # ------------------------------------------------------------------ spec evaluation
    def spec_eval(self, ex: Executor, st: State, fn, env: dict, pre_heap=None, entry=None, params=None) -> Val:
        """Evaluate a contract lambda (or expression) in spec mode: pure, total, non-forking."""
        sub = SpecExecutor(ex, self)
        s = st.clone()
        s.env = dict(env)
        s.ghost = dict(st.ghost)
        if pre_heap is not None:
            s.pre_heap = pre_heap
        if entry is not None:
            s.ghost["$entry"] = entry
        if params is not None:
            s.ghost["$params"] = params
        body = fn.body if isinstance(fn, ast.Lambda) else fn
        res = sub.eval(s, body)
        if len(res) != 1 or isinstance(res[0][1], Raised):
            raise EngineUnsupported(f"spec expression is not total/non-forking: {ast.unparse(body)[:80]}")
        # facts (axiom instances) generated while evaluating the spec are global truths: keep them
        for lab, t in res[0][0].pc[len(st.pc):]:
            st.pc.append((lab, t))
        v = res[0][1]
        if isinstance(v, VRef) and v.loc not in st.heap:
            v = sub.freeze(res[0][0], v)      # a structure built by the spec expression itself: return it as a value
        return v

    def as_bool(self, ex, st, v):
        return ex.truth(st, v)

    def lambda_env(self, fn: ast.Lambda, env: dict) -> dict:
        names = [a.arg for a in fn.args.args]
        missing = [n for n in names if n not in env]
        if missing:
            # positional aliases: if the function under verification is the baseline version up to a consistent renaming
            # of locals, a contract that names an old local is re-bound to the local in the same binding position
            alias = self.local_aliases()
            if alias and all(alias.get(n) in env for n in missing):
                return {n: env[n] if n in env else env[alias[n]] for n in names}
        if missing:
            # a contract names a parameter or local that the code no longer has (renamed local, changed signature):
            # the contract cannot be applied to this code -> outside the verifier's reach, never a verdict
            raise EngineUnsupported(f"contract lambda parameter(s) {missing} not available (have {sorted(env)})")
        return {n: env[n] for n in names}

    def local_aliases(self):
        """old local name -> current local name for the function being verified, when it is alpha-equivalent to the
        version recorded in baseline.json (same alpha_hash); {} otherwise."""
        q = getattr(self, "cur_func", None)
        if not q:
            return {}
        cache = self.__dict__.setdefault("_alias_cache", {})
        if q in cache:
            return cache[q]
        out = {}
        try:
            import json as _json
            with open(os.path.join(os.path.dirname(CONTRACT_DIR), "baseline.json")) as f:
                b = _json.load(f).get("functions", {})
            fi = self.prog.funcs.get(q)
            ent = next((v for k, v in b.items() if k.split("@")[0].split("#")[0] == q and v.get("locals_order") is not None), None)
            if fi is not None and ent and ent.get("alpha_hash") == fi.alpha_hash():
                cur = fi.locals_order()
                old = ent["locals_order"]
                if len(cur) == len(old):
                    out = {o: c for o, c in zip(old, cur) if o != c}
        except Exception:
            out = {}
        cache[q] = out
        return out

    # ------------------------------------------------------------------ calls
    def eval_call(self, ex: Executor, st: State, e: ast.Call):
        # special forms first
        fname = ast.unparse(e.func)
        if fname == "cast" and len(e.args) == 2:
            # typing.cast(T, v) is v; the first argument must be a type expression (a swapped call returns the type)
            if not isinstance(e.args[0], (ast.Name, ast.Attribute, ast.Subscript, ast.Constant, ast.BinOp)):
                raise EngineUnsupported("cast() whose first argument is not a type expression")
            return ex.eval(st, e.args[1])
        if fname == "isinstance":
            return self._isinstance(ex, st, e)
        if fname == "super":
            raise EngineUnsupported("bare super()")
        if isinstance(e.func, ast.Attribute) and isinstance(e.func.value, ast.Call) and ast.unparse(e.func.value) == "super()":
            return self._super_call(ex, st, e)
        if fname in ("old", "entry") and isinstance(ex, SpecExecutor):
            return ex.special_old(st, e, fname)
        if fname == "same_ref" and isinstance(ex, SpecExecutor):
            # same_ref(path): the path denotes the same heap object now as in the pre-state (object identity)
            now = ex.one(st, e.args[0])
            if st.pre_heap is None:
                raise EngineUnsupported("same_ref() without pre-state")
            s0 = st.clone()
            s0.heap = dict(st.pre_heap)
            pe = st.ghost.get("$params")
            if pe:
                s0.env = dict(st.env)
                s0.env.update(pe)
            before = ex.one(s0, e.args[0])
            ok = isinstance(now, VRef) and isinstance(before, VRef) and now.loc == before.loc
            return [(st, VBool(z3.BoolVal(ok)))]
        if fname in ("forall", "exists") and isinstance(ex, SpecExecutor):
            return ex.special_quant(st, e, fname)
        if fname in ("fold", "fold_prefix") and isinstance(ex, SpecExecutor):
            return ex.special_fold(st, e, fname)
        if fname == "mk" and isinstance(ex, SpecExecutor):
            view = e.args[0].value
            r = self.class_record(view)
            vals = {}
            for k in e.keywords:
                fty = r.index[k.arg][0]
                vals[k.arg] = to_term(ex.freeze(st, ex.one(st, k.value), fty), fty)
            return [(st, VRec(r, r.mk(vals)))]
        if fname == "typed" and isinstance(ex, SpecExecutor):
            rty = self.parse_type(e.args[0])
            v = ex.one(st, e.args[1])
            return [(st, ex.freeze(st, v, rty))]
        if fname == "opt_key" and isinstance(ex, SpecExecutor):
            # opt_key(d, "k", present, value): d extended by key k iff present
            d = ex.one(st, e.args[0])
            key = e.args[1].value
            cond = ex.truth(st, ex.one(st, e.args[2]))
            val = ex.one(st, e.args[3])
            if not (isinstance(d, VRef) and isinstance(st.cell(d), DictCell)):
                raise EngineUnsupported("opt_key on non-dict")
            c = st.cell(d)
            items, present = dict(c.items), dict(c.present)
            items[key] = val
            present[key] = cond
            return [(st, st.alloc(DictCell(items, present, c.ty)))]
        if fname == "ghost_val" and isinstance(ex, SpecExecutor):
            # ghost_val("name", <type>, args...): an uninterpreted function with a value of the given type
            name = e.args[0].value
            rty = self._as_ty(self.parse_type(e.args[1])) if not isinstance(self.parse_type(e.args[1]), Ty) else self.parse_type(e.args[1])
            args = [ex.one(st, a) for a in e.args[2:]]
            ts = [to_term(ex.freeze(st, a)) for a in args]
            f = strings.uf("ghostv_" + name, *[t.sort() for t in ts], rty.sort())
            return [(st, from_term(f(*ts), rty))]
        if fname == "ghost" and isinstance(ex, SpecExecutor):
            nv = ex.one(st, e.args[0])
            name = concrete_str(nv.t)
            if name is None:
                raise EngineUnsupported("ghost function name must be constant")
            args = [ex.one(st, a) for a in e.args[1:]]
            ts = [to_term(ex.freeze(st, a)) for a in args]
            f = strings.uf("ghost_" + name, *[t.sort() for t in ts], BOOL)
            return [(st, VBool(f(*ts)))]
        io_res = self._io_call(ex, st, e, fname)
        if io_res is not None:
            return io_res
        if fname == "seq_empty":
            ty = self._as_ty(self.parse_type(e.args[0]))
            return [(st, VSeq(ty, z3.Empty(TSeq(ty).sort())))]
        if fname in ("seq_map", "seq_mapi") and isinstance(ex, SpecExecutor):
            return ex.special_map(st, e)

        def k_func(s, f):
            # evaluate args left to right, handling *splat of tuples
            arg_exprs = []
            for a in e.args:
                arg_exprs.append(a.value if isinstance(a, ast.Starred) else a)
            kw_names = [k.arg for k in e.keywords]
            if any(n is None for n in kw_names):
                raise EngineUnsupported("**kwargs in call")

            def k_args(s2, vals):
                pos = []
                for a, v in zip(e.args, vals[:len(e.args)]):
                    if isinstance(a, ast.Starred):
                        if isinstance(v, VTuple):
                            pos.extend(v.items)
                        else:
                            raise EngineUnsupported("*splat of non-tuple")
                    else:
                        pos.append(v)
                kws = dict(zip(kw_names, vals[len(e.args):]))
                return self.call(ex, s2, f, pos, kws, e)
            return ex.eval_many(s, arg_exprs + [k.value for k in e.keywords], k_args)
        return ex.bind(ex.eval(st, e.func), k_func)

    def _isinstance(self, ex, st, e):
        def k(s, v):
            tn = ast.unparse(e.args[1])
            if tn == "str":
                return [(s, VBool(z3.BoolVal(isinstance(v, VStr))))]
            if isinstance(v, VRef) and isinstance(s.cell(v), ObjCell):
                return [(s, VBool(z3.BoolVal(self.prog.is_subclass(s.cell(v).cls, tn))))]
            raise EngineUnsupported("isinstance")
        return ex.bind(ex.eval(st, e.args[0]), k)

    def _super_call(self, ex, st, e):
        meth = e.func.attr
        self_v = st.env.get("self")
        cur_cls = st.ghost.get("$cls")
        if self_v is None or cur_cls is None:
            raise EngineUnsupported("super() outside method")
        ci = self.prog.classes[cur_cls]
        base = None
        for b in ci.bases:
            if b in self.prog.classes:
                base = b
                break

        def k(s, vals):
            if base is None:
                # Exception.__init__(msg): sets args
                if meth == "__init__" and self.prog.is_subclass(cur_cls, "ParserError") or ci.bases == ["Exception"]:
                    ex.setattr(s, self_v, "args", VTuple(list(vals)))
                    return [(s, VNone)]
                raise EngineUnsupported(f"super().{meth} with external base")
            fi = self.prog.find_method(base, meth)
            if fi is None:
                if meth == "__init__":
                    ex.setattr(s, self_v, "args", VTuple(list(vals)))
                    return [(s, VNone)]
                raise EngineUnsupported(f"super().{meth} not found")
            return self.call_function(ex, s, VFunc(fi.qualname, fi.node, self_v, fi.cls), list(vals), {}, e)
        if e.keywords:
            raise EngineUnsupported("super() call with keywords")
        return ex.eval_many(st, list(e.args), k)

    # ---- the text I/O the library uses, as ghost functions (trusted axioms T-io, see DESIGN.md) -----------------
    # path_exists(p): Bool; file_text(p, raw): the decoded text of file p (raw: newline="" i.e. no translation);
    # keepends(t): the LF-terminated segments of t in order (every segment non-empty).  A text stream object is an
    # ObjCell of ghost class TextIO(lines, pos); readline() returns lines[pos] and advances, "" when exhausted.
    def _io_call(self, ex, st, e, fname):
        if isinstance(ex, SpecExecutor):
            return None
        def one(x):
            r = ex.eval(st, x)
            if len(r) != 1 or isinstance(r[0][1], Raised) or r[0][0] is not st:
                raise EngineUnsupported("I/O call with a branching argument")
            return r[0][1]
        if fname == "os.path.exists" and len(e.args) == 1:
            v = one(e.args[0])
            if not isinstance(v, VStr):
                raise EngineUnsupported("os.path.exists on a non-string")
            return [(st, VBool(strings.uf("ghost_path_exists", v.t.sort(), BOOL)(v.t)))]
        if fname in ("open", "io.StringIO") and "TextIO" in self.klasses:
            v = one(e.args[0]) if e.args else None
            if not isinstance(v, VStr) or len(e.args) != 1:
                raise EngineUnsupported(f"{fname} with these arguments")
            kws = {k.arg: k.value for k in e.keywords}
            strsort = v.t.sort()
            lsort = TSeq(T_STR).sort()
            keepends = strings.uf("ghostv_keepends", strsort, lsort)
            if fname == "open":
                enc = kws.pop("encoding", None)
                if not (isinstance(enc, ast.Constant) and enc.value in ("utf8", "utf-8")):
                    raise EngineUnsupported("open without encoding='utf8'")
                raw = False
                if "newline" in kws:
                    nl = kws.pop("newline")
                    if not (isinstance(nl, ast.Constant) and nl.value in ("", None)):
                        raise EngineUnsupported("open with this newline mode")
                    raw = nl.value == ""
                if kws:
                    raise EngineUnsupported(f"open with keywords {sorted(kws)}")
                text = strings.uf("ghostv_file_text", strsort, BOOL, strsort)(v.t, z3.BoolVal(raw))
            else:
                if kws:
                    raise EngineUnsupported("io.StringIO with keywords")
                text = v.t
            lines = keepends(text)
            st.assume(self._keepends_axiom(lines), "T-io:keepends")
            ref = st.alloc(ObjCell("TextIO", {"lines": VSeq(T_STR, lines), "pos": VInt(z3.IntVal(0)),
                                              "text": VStr(text)}, "local", "TextIO"))
            return [(st, ref)]
        if isinstance(e.func, ast.Attribute) and e.func.attr in ("readline", "read") and not e.args and not e.keywords:
            # only for receivers that are TextIO objects
            try:
                recv = ex.eval(st, e.func.value)
            except EngineUnsupported:
                return None
            if len(recv) != 1 or isinstance(recv[0][1], Raised):
                return None
            st2, r = recv[0]
            if not (isinstance(r, VRef) and isinstance(st2.cell(r), ObjCell) and st2.cell(r).cls == "TextIO"):
                return None
            c = st2.cell(r)
            lines, pos = c.fields["lines"].t, c.fields["pos"].t
            if e.func.attr == "read":
                if not z3.is_int_value(z3.simplify(pos)) or z3.simplify(pos).as_long() != 0:
                    raise EngineUnsupported("read() on a stream already read from")
                flds = dict(c.fields)
                flds["pos"] = VInt(z3.Length(lines))
                st2.set_cell(r, ObjCell(c.cls, flds, c.owner, c.view))
                return [(st2, c.fields["text"])]
            inside = z3.And(pos >= 0, pos < z3.Length(lines))
            out = z3.If(inside, lines[pos], z3.Empty(lines.sort().basis()))
            flds = dict(c.fields)
            flds["pos"] = VInt(z3.If(inside, pos + 1, pos))
            st2.set_cell(r, ObjCell(c.cls, flds, c.owner, c.view))
            return [(st2, VStr(out))]
        return None

    @staticmethod
    def _keepends_axiom(lines):
        j = z3.Int("qj_keepends")
        return z3.ForAll([j], z3.Implies(z3.And(j >= 0, j < z3.Length(lines)), z3.Length(lines[j]) >= 1))

    def call(self, ex: Executor, st: State, f: Val, args: list, kwargs: dict, node):
        if isinstance(f, VFunc):
            return self.call_function(ex, st, f, args, kwargs, node)
        if isinstance(f, VBuiltin):
            return strings.call_builtin(ex, self, st, f, args, kwargs, node)
        if isinstance(f, VClass):
            return self.instantiate(ex, st, f.name, args, kwargs, node)
        raise EngineUnsupported(f"call of {f!r} (line {getattr(node, 'lineno', '?')})")

    def instantiate(self, ex, st, cls, args, kwargs, node):
        c = self.contracts.get(self._qual(cls, "__init__"))
        ref = st.alloc(ObjCell(cls, {}, "local"))
        fi = self.prog.find_method(cls, "__init__")
        if fi is None:
            if self.prog.is_subclass(cls, "ParserError") or self.prog.classes[cls].bases == ["Exception"]:
                ex.setattr(st, ref, "args", VTuple(list(args)))
                return [(st, ref)]
            return [(st, ref)]
        res = self.call_function(ex, st, VFunc(fi.qualname, fi.node, ref, fi.cls), args, kwargs, node)
        return ex.bind(res, lambda s, _v: [(s, ref)])

    def _qual(self, cls, meth):
        fi = self.prog.find_method(cls, meth)
        return fi.qualname if fi else None

    def call_function(self, ex: Executor, st: State, f: VFunc, args, kwargs, node):
        if f.qualname.startswith("spec:") or f.qualname == "<lambda>":
            return self.inline_call(ex, st, f, args, kwargs, node)
        if f.qualname == "<abstract>":
            raise EngineUnsupported("call of abstract function value")
        # dynamic dispatch on the receiver's class
        if f.self_val is not None and isinstance(f.self_val, VRef) and isinstance(st.cell(f.self_val), ObjCell):
            dyn = self.prog.find_method(st.cell(f.self_val).cls, f.node.name)
            if dyn is not None and dyn.qualname != f.qualname and not st.ghost.get("$static_dispatch"):
                pass  # receiver class is exact in this model (objects are created with their concrete class)
        hook = getattr(self, "hooks", {}).get(f.qualname)
        if hook is not None:
            env = self.bind_params(ex, st, f.node, f.self_val, args, kwargs, node)
            return hook(ex, st, f, env, node)
        c = self.contracts.get(f.qualname)
        view = None
        if isinstance(f.self_val, VRef) and isinstance(st.cell(f.self_val), ObjCell):
            view = st.cell(f.self_val).view
        elif isinstance(f.self_val, VRec):
            view = getattr(f.self_val.ty, "view", None)
        if view is not None and f"{f.qualname}@{view}" in self.contracts:
            c = self.contracts[f"{f.qualname}@{view}"]
        if c is not None and not c.inline and not (isinstance(ex, SpecExecutor)):
            return self.apply_contract(ex, st, c, f, args, kwargs, node)
        if c is not None and c.inline or isinstance(ex, SpecExecutor) or self.is_trivial(f):
            return self.inline_call(ex, st, f, args, kwargs, node)
        raise EngineUnsupported(f"call to {f.qualname} which has neither contract nor inline permission "
                                f"(line {getattr(node, 'lineno', '?')})")

    def is_trivial(self, f: VFunc) -> bool:
        """Single-statement accessor bodies (``return <expr>`` without calls to non-trivial code) may be inlined."""
        body = [s for s in f.node.body if not (isinstance(s, ast.Expr) and isinstance(s.value, ast.Constant))]
        if len(body) != 1 or not isinstance(body[0], (ast.Return, ast.Pass)):
            return False
        for n in ast.walk(body[0]):
            if isinstance(n, (ast.ListComp, ast.GeneratorExp, ast.DictComp, ast.Lambda)):
                return False
        return True

    def bind_params(self, ex, st, fnode, self_val, args, kwargs, node):
        a = fnode.args
        params = [p.arg for p in a.args]
        env = {}
        pos = list(args)
        if self_val is not None:
            pos = [self_val] + pos
        if len(pos) > len(params):
            raise EngineUnsupported(f"too many positional arguments (line {getattr(node, 'lineno', '?')})")
        for p, v in zip(params, pos):
            env[p] = v
        defaults = a.defaults
        dstart = len(params) - len(defaults)
        for i, p in enumerate(params):
            if p in env:
                continue
            if p in kwargs:
                env[p] = kwargs[p]
            elif i >= dstart:
                d = defaults[i - dstart]
                # Python evaluates a default once, at definition time: a default that builds a mutable object
                # (a call, a list / dict / set display) is shared by all calls -- state the executor does not model
                if any(isinstance(x, (ast.Call, ast.List, ast.Dict, ast.Set, ast.ListComp, ast.DictComp, ast.SetComp))
                       for x in ast.walk(d)):
                    raise EngineUnsupported(f"parameter {p} has a mutable default evaluated once at definition time "
                                            f"(shared between calls); line {getattr(node, 'lineno', '?')}")
                r = ex.eval(st, d)
                env[p] = r[0][1]
            else:
                raise EngineUnsupported(f"missing argument {p} (TypeError) at line {getattr(node, 'lineno', '?')}")
        for k in kwargs:
            if k not in params:
                raise EngineUnsupported(f"unexpected keyword {k}")
        return env

    def _memo_key(self, v):
        if isinstance(v, (VInt, VBool, VStr)):
            return ("t", v.t.get_id())
        if isinstance(v, VSeq):
            return ("s", str(v.elem), v.t.get_id())
        if isinstance(v, (VRec, VOpt)):
            return ("r", v.ty.name if isinstance(v, VRec) else str(v.ty), v.t.get_id())
        if isinstance(v, VTuple):
            return ("T",) + tuple(self._memo_key(i) for i in v.items)
        if v is VNone:
            return ("n",)
        raise KeyError

    def inline_call(self, ex: Executor, st: State, f: VFunc, args, kwargs, node):
        # spec functions are pure functions of their (term-valued) arguments: memoise per run
        if f.qualname.startswith("spec:") and isinstance(ex, SpecExecutor) and not kwargs:
            try:
                key = (f.qualname,) + tuple(self._memo_key(a) for a in args)
            except KeyError:
                key = None
            if key is not None:
                hit = self.spec_memo.get(key)
                if hit is not None:
                    val, facts = hit
                    have = {t.get_id() for _, t in st.pc}
                    for lab, t in facts:
                        if t.get_id() not in have:
                            st.pc.append((lab, t))
                    return [(st, val)]
                n0 = len(st.pc)
                spec0 = self.specialisations
                res = self._inline_call(ex, st, f, args, kwargs, node)
                if len(res) == 1 and not isinstance(res[0][1], Raised) and self.specialisations == spec0:
                    s2, v = res[0]
                    try:
                        self._memo_key(v)
                        self.spec_memo[key] = (v, list(s2.pc[n0:]))
                    except KeyError:
                        pass
                return res
        return self._inline_call(ex, st, f, args, kwargs, node)

    def _inline_call(self, ex: Executor, st: State, f: VFunc, args, kwargs, node):
        if isinstance(f.node, ast.Lambda):
            env = dict(getattr(f, "closure", {}) or {})
            names = [a.arg for a in f.node.args.args]
            for n, v in zip(names, args):
                env[n] = v
            s = st.clone()
            saved = st.env
            s.env = env
            res = ex.eval(s, f.node.body)
            out = []
            for s2, v in res:
                s2.env = dict(saved)
                out.append((s2, v))
            return out
        if ex.depth > 48:
            raise EngineUnsupported("inline depth")
        env = self.bind_params(ex, st, f.node, f.self_val, args, kwargs, node)
        s = st.clone()
        saved_env, saved_ghost = st.env, dict(st.ghost)
        s.env = env
        if f.cls:
            s.ghost["$cls"] = f.cls
        ex.depth += 1
        try:
            results = ex.exec_block(s, f.node.body)
        finally:
            ex.depth -= 1
        out = []
        for s2, oc in results:
            s2.env = dict(saved_env)
            s2.ghost = dict(s2.ghost)
            s2.ghost["$cls"] = saved_ghost.get("$cls")
            if oc.kind == Outcome.RETURN:
                out.append((s2, oc.value))
            elif oc.kind == Outcome.NORMAL:
                out.append((s2, VNone))
            elif oc.kind == Outcome.RAISE:
                out.append((s2, Raised(oc.value)))
            else:
                raise EngineUnsupported("break/continue escaping function")
        return out

    # ------------------------------------------------------------------ contract application at a call site
    def contract_env(self, ex, st, c: Contract, f: VFunc, args, kwargs, node):
        if f.node is not None:
            env = self.bind_params(ex, st, f.node, f.self_val, args, kwargs, node)
        else:
            names = list(c.args)
            env = dict(zip(names, ([f.self_val] if f.self_val is not None else []) + list(args)))
        return env

    def apply_contract(self, ex: Executor, st: State, c: Contract, f: VFunc, args, kwargs, node):
        ln = getattr(node, "lineno", 0)
        env = self.contract_env(ex, st, c, f, args, kwargs, node)
        for pn, tx in c.args.items():
            if pn in env:
                try:
                    pty = self.parse_type(tx)
                    self.coerce_to_view(ex, st, env[pn], pty)
                    v = env[pn]
                    # python-level list / tuple literals passed for an immutable sequence parameter become typed values
                    if isinstance(pty, Ty) and not isinstance(pty, TOpt) and isinstance(v, VOpt) and v.ty.elem == pty:
                        # an optional value passed where the callee requires a definite one: None would be a TypeError
                        ex.oblige(st, f"safety[TypeError:None passed as {pn}@{getattr(node, 'lineno', 0)}]",
                                  z3.Not(v.ty.is_none(v.t)), lineno=getattr(node, 'lineno', 0))
                        env[pn] = from_term(v.ty.val(v.t), v.ty.elem)
                        v = env[pn]
                    if isinstance(pty, TSeq) and (isinstance(v, VTuple) or (
                            isinstance(v, VRef) and isinstance(st.cell(v), ListCell) and st.cell(v).elem is None)):
                        env[pn] = ex.freeze(st, v, pty)
                except ValueError:
                    pass
        short = c.qualname.split(".")[-1]
        for cl in c.requires:
            t = self.spec_eval(ex, st, cl.fn, self.lambda_env(cl.fn, env))
            ex.oblige(st, f"call.pre[{short}.{cl.name}@{ln}]", ex.truth(st, t), kind="call.pre",
                      serves=cl.serves or ex.cur_serves, lineno=ln)
        pre_heap = dict(st.heap)
        whens = []
        for rc in c.raises:      # raise conditions are conditions on the pre-state
            whens.append(ex.truth(st, self.spec_eval(ex, st, rc.when, self.lambda_env(rc.when, env)))
                         if rc.when is not None else None)
        self.havoc_modifies(ex, st, c.modifies, env)
        outs = []
        # exceptional outcomes
        normal = st.clone()
        onlyifs = []
        for rc in c.raises:
            onlyifs.append(ex.truth(st, self.spec_eval(ex, _pre_state(st, pre_heap), rc.only_if, self.lambda_env(rc.only_if, env)))
                           if rc.only_if is not None else None)
        for (rc, w), oi in zip(zip(c.raises, whens), onlyifs):
            s = st.clone()
            if oi is not None:
                if not ex.feasible(s, oi):
                    continue
                s.assume(oi, f"raises-only-if:{rc.exc}")
            if rc.when is not None:
                if not ex.feasible(s, w):
                    normal.assume(z3.Not(w), "no-raise")
                    continue
                s.assume(w, f"raises:{rc.exc}")
                normal.assume(z3.Not(w), "no-raise")
            excref = self.fresh_exception(ex, s, rc.exc)
            xenv = dict(env)
            xenv["exc"] = excref
            for cl in rc.ensures:
                t = self.spec_eval(ex, s, cl.fn, self.lambda_env(cl.fn, xenv), pre_heap=pre_heap, params=env)
                s.assume(ex.truth(s, t), f"xpost:{short}.{cl.name}")
            outs.append((s, Raised(excref)))
        # normal outcome
        s = normal
        rty = self.parse_type(c.returns) if c.returns is not None else ("none",)
        if c.result_is is not None:
            result = self.spec_eval(ex, _pre_state(s, pre_heap), c.result_is, self.lambda_env(c.result_is, env))
            if isinstance(result, (VTuple,)) and isinstance(rty, Ty):
                result = ex.freeze(s, result, rty)
        else:
            # an ensures clause `result is <parameter>` (the function returns one of its arguments): the result *is*
            # that object, so aliasing between the returned value and the argument is modelled
            alias = None
            for cl in c.ensures:
                b = cl.fn.body
                if isinstance(b, ast.Compare) and len(b.ops) == 1 and isinstance(b.ops[0], ast.Is) \
                        and isinstance(b.left, ast.Name) and b.left.id == "result" \
                        and isinstance(b.comparators[0], ast.Name) and isinstance(env.get(b.comparators[0].id), VRef):
                    alias = env[b.comparators[0].id]
            result = alias if alias is not None else self.fresh_of(ex, s, rty, f"{short}_result", "local")
        renv = dict(env)
        renv["result"] = result
        for cl in c.ensures:
            if self.bind_identity(ex, s, cl.fn, renv):
                continue
            t = self.spec_eval(ex, s, cl.fn, self.lambda_env(cl.fn, renv), pre_heap=pre_heap, params=env)
            tt = ex.truth(s, t)
            if z3.is_false(z3.simplify(tt)):
                # assuming it would make everything after this call provable: the contract cannot be applied here
                raise EngineUnsupported(f"postcondition {cl.name} of {short} is identically false at this call site "
                                        f"(line {getattr(node, 'lineno', '?')}): the callee's contract does not fit this call")
            s.assume(tt, f"post:{short}.{cl.name}")
        # vacuity guard: the callee's postconditions must be consistent with what the caller knows on this path
        if solve.quick_unsat([h for _, h in s.pc], timeout_ms=400):
            raise EngineUnsupported(f"the contract of {short} contradicts the caller's path condition at line "
                                    f"{getattr(node, 'lineno', '?')}: everything after the call would be vacuously provable")
        outs.append((s, result))
        return outs

    def klass_of(self, cls):
        """klass declaration of cls or of its nearest declared base class"""
        seen = set()
        while cls and cls not in seen:
            seen.add(cls)
            if cls in self.klasses:
                return self.klasses[cls]
            ci = self.prog.classes.get(cls)
            if ci is None:
                return None
            cls = next((b for b in ci.bases if b in self.prog.classes), None)
        return None

    def bind_identity(self, ex, st, fn: ast.Lambda, env) -> bool:
        """An ensures clause of the form `obj.attr is expr` (object identity) is applied as a store."""
        b = fn.body
        if isinstance(b, ast.Compare) and len(b.ops) == 1 and isinstance(b.ops[0], ast.Is) \
                and isinstance(b.left, ast.Attribute) and not (isinstance(b.comparators[0], ast.Constant)):
            lenv = self.lambda_env(fn, env)
            base = self.spec_eval(ex, st, b.left.value, lenv)
            val = self.spec_eval(ex, st, b.comparators[0], lenv)
            if isinstance(base, VRef) and isinstance(st.cell(base), ObjCell):
                ex.setattr(st, base, b.left.attr, val)
                return True
        return False

    def coerce_to_view(self, ex, st, v, ty):
        """An object created by the code under verification and passed where a contract declares a (ghost) view:
        adopt the view and give its still-untyped empty lists the element types the view declares."""
        if not (isinstance(ty, tuple) and ty[0] == "obj" and isinstance(v, VRef) and isinstance(st.cell(v), ObjCell)):
            return
        kd = self.klasses[ty[1]]
        c = st.cell(v)
        flds = dict(c.fields)
        for k, tx in kd.fields.items():
            fty = self.parse_type(tx)
            cur = flds.get(k)
            if isinstance(fty, tuple) and fty[0] == "list" and isinstance(cur, VRef) and isinstance(st.cell(cur), ListCell):
                lc = st.cell(cur)
                if lc.elem is None and not lc.items:
                    st.set_cell(cur, ListCell(fty[1], z3.Empty(TSeq(fty[1]).sort()), None, lc.owner))
            elif isinstance(fty, tuple) and fty[0] == "obj":
                self.coerce_to_view(ex, st, cur, fty)
        if c.view is None:
            st.set_cell(v, ObjCell(c.cls, flds, c.owner, ty[1]))

    def fresh_exception(self, ex, st, cls) -> VRef:
        kd = self.klass_of(cls)
        if kd is not None:
            ref = self.fresh_of(ex, st, ("obj", kd.name), "exc", "local")
            c = st.cell(ref)
            st.set_cell(ref, ObjCell(cls, c.fields, c.owner, c.view))
            return ref
        # default shape of the ParserException family: location dict + message
        flds = {"args": VTuple([fresh_val(T_STR, "exc_msg")])}
        loc = self.records.get("Location") or self.record("Location")
        if loc is not None and self.prog.is_subclass(cls, "ParserException"):
            flds["location"] = self.fresh_of(ex, st, ("dict", loc), "exc_loc", "local")
        return st.alloc(ObjCell(cls, flds, "local"))

    def resolve_path(self, ex, st, path: str, env: dict):
        """'token.location' -> value.  '*' as last component handled by caller."""
        parts = path.split(".")
        v = env[parts[0]]
        for p in parts[1:]:
            r = ex.getattr(st, v, p)
            v = r[0][1]
        return v

    def havoc_modifies(self, ex, st, modifies, env):
        for m in modifies:
            if m.endswith(".*"):
                v = self.resolve_path(ex, st, m[:-2], env)
                self.havoc_cell(ex, st, v, m)
            else:
                parts = m.split(".")
                if len(parts) == 1:
                    v = env[parts[0]]
                    self.havoc_cell(ex, st, v, m)
                else:
                    base = self.resolve_path(ex, st, ".".join(parts[:-1]), env)
                    cur = ex.getattr(st, base, parts[-1])[0][1]
                    if isinstance(cur, VRef):
                        self.havoc_cell(ex, st, cur, m)
                    else:
                        ex.setattr(st, base, parts[-1], self.havoc_value(ex, st, cur, m))

    def havoc_value(self, ex, st, v, name):
        if v is VNone:
            return VNone
        if isinstance(v, (VInt, VBool, VStr, VSeq, VRec, VOpt, VMap)):
            return fresh_val(ty_of_val(v), "h_" + name.replace(".", "_"))
        if isinstance(v, VTuple):
            return VTuple([self.havoc_value(ex, st, i, name) for i in v.items])
        if isinstance(v, VRef):
            self.havoc_cell(ex, st, v, name)
            return v
        raise EngineUnsupported(f"havoc of {v!r}")

    def havoc_cell(self, ex, st, ref, name):
        if not isinstance(ref, VRef):
            raise EngineUnsupported(f"modifies target {name} is not a heap object")
        c = st.cell(ref)
        nm = "h_" + name.replace(".", "_").replace("*", "all")
        if isinstance(c, ListCell):
            if c.elem is None:
                if not c.items:
                    raise EngineUnsupported(f"havoc of untyped empty list {name}: declare its type")
                fr = ex.freeze(st, ref)
                st.set_cell(ref, ListCell(fr.elem, fresh(TSeq(fr.elem).sort(), nm), None, c.owner))
            else:
                st.set_cell(ref, ListCell(c.elem, fresh(TSeq(c.elem).sort(), nm), None, c.owner))
        elif isinstance(c, ObjCell):
            kd = (self.klasses.get(c.view) if c.view else None) or self.klass_of(c.cls)
            flds = {}
            if kd is not None:
                for k, tx in kd.fields.items():
                    if k not in c.fields:
                        flds[k] = self.fresh_of(ex, st, self.parse_type(tx), f"{nm}.{k}", c.owner)
            for k, v in c.fields.items():
                if kd is not None and k in kd.fields:
                    flds[k] = self.fresh_of(ex, st, self.parse_type(kd.fields[k]), f"{nm}.{k}", c.owner) \
                        if not isinstance(v, VRef) else self.havoc_value(ex, st, v, f"{name}.{k}")
                else:
                    flds[k] = self.havoc_value(ex, st, v, f"{name}.{k}")
            st.set_cell(ref, ObjCell(c.cls, flds, c.owner, c.view))
        elif isinstance(c, DictCell):
            items = {k: self.havoc_value(ex, st, v, f"{name}.{k}") for k, v in c.items.items()}
            present = {}
            for k in c.items:
                opt = c.ty is not None and k in c.ty.index and c.ty.index[k][1]
                present[k] = fresh(BOOL, f"{nm}.has_{k}") if opt else True
            st.set_cell(ref, DictCell(items, present, c.ty, c.owner))
        elif isinstance(c, IterCell):
            st.set_cell(ref, IterCell(c.seq, c.elem, fresh(INT, nm + "_pos")))
        else:
            raise EngineUnsupported(f"havoc of cell {c!r}")

    # ------------------------------------------------------------------ loops
    def loop_contract(self, ex: Executor, node) -> LoopContract | None:
        c = self.contracts.get(getattr(ex, "contract_name", None) or ex.func)
        if c is None:
            return None
        fi = self.prog.funcs.get(ex.func)
        if fi is None:
            return None
        loops = [n for n in ast.walk(fi.node) if isinstance(n, (ast.While, ast.For))]
        loops.sort(key=lambda n: (n.lineno, n.col_offset))
        try:
            ordinal = loops.index(node)
        except ValueError:
            return None
        return c.loops.get(ordinal), ordinal

    def exec_loop(self, ex: Executor, st: State, node) -> list:
        found = self.loop_contract(ex, node)
        lc, ordinal = found if found else (None, -1)
        if isinstance(node, ast.For):
            return self.exec_for(ex, st, node, lc, ordinal)
        return self.exec_while(ex, st, node, lc, ordinal)

    def assigned_names(self, body):
        names = set()
        for n in body:
            for x in ast.walk(n):
                if isinstance(x, ast.Name) and isinstance(x.ctx, ast.Store):
                    names.add(x.id)
        return names

    def mutated_roots(self, body):
        """names whose heap object may be mutated in the body (method calls / attribute or item stores / +=)."""
        roots = set()
        for n in body:
            for x in ast.walk(n):
                if isinstance(x, ast.Call) and isinstance(x.func, ast.Attribute):
                    if x.func.attr in ("append", "extend", "pop", "popleft", "add", "sort", "insert", "remove", "clear",
                                       "update", "setdefault", "reverse", "appendleft", "extendleft"):
                        r = _root(x.func.value)
                        if r:
                            roots.add(ast.unparse(x.func.value))
                if isinstance(x, ast.Call) and ast.unparse(x.func) == "next" and x.args:
                    roots.add(ast.unparse(x.args[0]))
                if isinstance(x, (ast.Attribute, ast.Subscript)) and isinstance(x.ctx, ast.Store):
                    roots.add(ast.unparse(x.value))
                if isinstance(x, ast.AugAssign) and isinstance(x.target, (ast.Name, ast.Attribute)):
                    roots.add(ast.unparse(x.target))
                if isinstance(x, (ast.Yield, ast.YieldFrom)):
                    roots.add("_yielded")
        return roots

    def havoc_for_loop(self, ex, st: State, body, lc: LoopContract, extra_names=()):
        names = (self.assigned_names(body) | set(extra_names))
        alias = self.local_aliases()            # old local name -> current one (consistent renaming since the baseline)
        if alias and lc is not None:
            rev = {c: o for o, c in alias.items()}
            # the loop contract speaks the old names: present it under the current ones
            lc = LoopContract(invariant=lc.invariant, variant=lc.variant,
                              types={alias.get(k, k): v for k, v in lc.types.items()},
                              modifies=[".".join([alias.get(m.split(".")[0], m.split(".")[0])] + m.split(".")[1:]) for m in lc.modifies])
        roots = self.mutated_roots(body) | set(lc.modifies if lc else [])
        # heap objects first (so that aliases keep pointing to the same cells)
        for r in sorted(roots):
            try:
                expr = ast.parse(r, mode="eval").body
                res = ex.eval(st.clone(), expr)
                v = res[0][1] if res and not isinstance(res[0][1], Raised) else None
            except EngineUnsupported:
                v = None
            if isinstance(v, VRef):
                c = st.cell(v)
                if isinstance(c, ListCell) and c.elem is None and not c.items:
                    ty = (lc.types.get(r.replace(".", "__")) or lc.types.get(r.split(".")[-1])) if lc else None
                    if ty is None:
                        raise EngineUnsupported(f"loop mutates untyped empty list {r}: declare types={{...}}")
                    pt = self.parse_type(ty)
                    el = pt.elem if isinstance(pt, TSeq) else pt[1]
                    st.set_cell(v, ListCell(el, z3.Empty(TSeq(el).sort()), None, c.owner))
                self.havoc_cell(ex, st, v, r)
        for n in sorted(names):
            if n in st.env:
                cur = st.env[n]
                if lc and n in lc.types:
                    st.env[n] = self.fresh_of(ex, st, self.parse_type(lc.types[n]), n, "local")
                elif isinstance(cur, VRef):
                    pass  # reference itself unchanged unless reassigned; content havoced above if mutated
                    if n in self.assigned_names(body) and self._reassigned_plain(body, n):
                        raise EngineUnsupported(f"loop reassigns reference variable {n}: declare types")
                elif cur is VNone:
                    if lc and n in lc.types:
                        st.env[n] = self.fresh_of(ex, st, self.parse_type(lc.types[n]), n, "local")
                    else:
                        raise EngineUnsupported(f"loop variable {n} is None at loop entry: declare its type")
                else:
                    st.env[n] = self.havoc_value(ex, st, cur, n)
            elif lc and n in lc.types:
                st.env[n] = self.fresh_of(ex, st, self.parse_type(lc.types[n]), n, "local")

    def _reassigned_plain(self, body, name):
        for n in body:
            for x in ast.walk(n):
                if isinstance(x, ast.Assign):
                    for t in x.targets:
                        if isinstance(t, ast.Name) and t.id == name:
                            return True
        return False

    def retype_locals(self, ex, st, lc):
        """Empty python-level lists whose type the loop contract declares become typed (z3-level) empty lists."""
        if lc is None:
            return
        roots = {}
        alias = self.local_aliases()
        for n, tx in lc.types.items():
            n = alias.get(n, n)
            v = st.env.get(n)
            if v is None and "__" in n:          # attribute path written with '__' (context__errors)
                try:
                    r = ex.eval(st.clone(), ast.parse(n.replace("__", "."), mode="eval").body)
                    v = r[0][1] if r and not isinstance(r[0][1], Raised) else None
                except EngineUnsupported:
                    v = None
            if isinstance(v, VRef) and isinstance(st.cell(v), ListCell):
                c = st.cell(v)
                if c.elem is None and not c.items:
                    pt = self.parse_type(tx)
                    el = pt.elem if isinstance(pt, TSeq) else (pt[1] if isinstance(pt, tuple) and pt[0] == "list" else None)
                    if el is not None:
                        st.set_cell(v, ListCell(el, z3.Empty(TSeq(el).sort()), None, c.owner))

    def check_invariant(self, ex, st, lc: LoopContract, ordinal, phase, entry_state, lineno):
        for cl in lc.invariant:
            env = dict(st.env)
            t = self.spec_eval(ex, st, cl.fn, self.lambda_env(cl.fn, env), pre_heap=st.pre_heap, entry=entry_state)
            ex.oblige(st, f"loop{ordinal}.{phase}[{cl.name}]", ex.truth(st, t), kind="loop." + phase,
                      serves=cl.serves, lineno=lineno, boundary=False, clause=cl.name, assume_after=False)

    def assume_invariant(self, ex, st, lc: LoopContract, entry_state):
        for cl in lc.invariant:
            t = self.spec_eval(ex, st, cl.fn, self.lambda_env(cl.fn, dict(st.env)), pre_heap=st.pre_heap, entry=entry_state)
            tt = ex.truth(st, t)
            if z3.is_false(z3.simplify(tt)):
                raise EngineUnsupported(f"loop invariant clause {cl.name} is identically false at the loop head: "
                                        f"the cut would make the loop body vacuous")
            st.assume(tt, f"inv:{cl.name}|{','.join(cl.serves)}")
        # vacuity guard: the invariant (with the havoced state) must be satisfiable, otherwise every obligation of the
        # body and of the code after the loop is discharged from a contradiction
        if solve.quick_unsat([h for _, h in st.pc], timeout_ms=400):
            raise EngineUnsupported("the loop invariant contradicts the state at the loop head: vacuous cut")

    def loop_frame_check(self, ex, pre, head, end, lc, ordinal, lineno):
        """Soundness of the loop cut: a heap cell that existed at the loop head, was not havoced there (it is neither
        syntactically mutated through its own name in the body nor listed in the loop's `modifies`) and is nevertheless
        changed by the body -- typically through an alias -- would keep its entry value at every cut.  Such a body violates
        the loop's frame; the obligation is false and is tagged with every property the loop's invariant serves."""
        havoced = {loc for loc, c in head.heap.items() if pre.heap.get(loc) is not c}
        changed = [loc for loc, c in head.heap.items() if loc not in havoced and loc in end.heap and end.heap[loc] is not c]
        if not changed:
            return
        names = []
        for loc in changed:
            nm = [k for k, v in end.env.items() if isinstance(v, VRef) and v.loc == loc] or \
                 [k for k, v in head.env.items() if isinstance(v, VRef) and v.loc == loc]
            names.append(nm[0] if nm else f"cell#{loc}")
        serves = sorted({p for cl in (lc.invariant if lc else []) for p in cl.serves}) or ["C01"]
        ex.oblige(end, f"loop{ordinal}.frame[{','.join(sorted(set(names)))} modified in the body but neither named there nor listed in modifies]",
                  z3.BoolVal(False), kind="frame", serves=serves, lineno=lineno, boundary=False, assume_after=False)

    def exec_while(self, ex, st, node: ast.While, lc, ordinal):
        if lc is None:
            raise EngineUnsupported(f"while loop at line {node.lineno} has no loop contract")
        if node.orelse:
            raise EngineUnsupported("while/else")
        self.retype_locals(ex, st, lc)
        entry = st.clone()
        self.check_invariant(ex, st, lc, ordinal, "init", entry, node.lineno)
        head = st.clone()
        self.havoc_for_loop(ex, head, node.body, lc)
        self.assume_invariant(ex, head, lc, entry)
        out = []
        vpre = None
        if lc.variant is not None:
            vpre = ex.as_int(self.spec_eval(ex, head, lc.variant, self.lambda_env(lc.variant, dict(head.env))))

        def k(s, c):
            res = []
            for s2, b in ex.branch(s, ex.truth(s, c)):
                if not b:
                    res.append((s2, Outcome(Outcome.NORMAL)))
                    continue
                for s3, oc in ex.exec_block(s2, node.body):
                    if oc.kind in (Outcome.NORMAL, Outcome.CONTINUE):
                        self.loop_frame_check(ex, st, head, s3, lc, ordinal, node.lineno)
                        self.check_invariant(ex, s3, lc, ordinal, "preserved", entry, node.lineno)
                        if vpre is not None:
                            vpost = ex.as_int(self.spec_eval(ex, s3, lc.variant, self.lambda_env(lc.variant, dict(s3.env))))
                            ex.oblige(s3, f"loop{ordinal}.variant", z3.And(vpre >= 0, vpost < vpre), kind="loop.variant",
                                      serves=["C01"], lineno=node.lineno, boundary=False, assume_after=False)
                    elif oc.kind == Outcome.BREAK:
                        res.append((s3, Outcome(Outcome.NORMAL)))
                    else:
                        res.append((s3, oc))
            return res
        out = ex._lift(ex.eval(head, node.test), k)
        if lc.variant is None:
            ex.assumptions_used.add(f"termination of loop {ordinal} of {ex.func} not proved (no variant)")
        return out

    def iter_source(self, ex, st, it_expr):
        """Desugar the iterable of a for-loop: returns list[(state, elemTy, seqTerm, mode, filter)]
        mode: 'plain' | 'enumerate';  filter: (target, [ifs]) for generator expressions with a filter."""
        mode, flt = "plain", None
        e = it_expr
        if isinstance(e, ast.Call) and ast.unparse(e.func) == "enumerate" and len(e.args) == 1:
            mode = "enumerate"
            e = e.args[0]
        if isinstance(e, ast.GeneratorExp):
            g = e.generators
            if len(g) != 1 or not isinstance(e.elt, ast.Name) or not isinstance(g[0].target, ast.Name) \
                    or e.elt.id != g[0].target.id:
                raise EngineUnsupported("for over a generator expression other than (x for x in xs if p)")
            flt = (g[0].target.id, g[0].ifs)
            e = g[0].iter
        out = []
        for s, v in ex.eval(st, e):
            if isinstance(v, Raised):
                out.append((s, v, None, mode, flt))
                continue
            if isinstance(v, VStr):
                out.append((s, "char", v.t, mode, flt))
                continue
            if isinstance(v, VRef) and isinstance(s.cell(v), ListCell) and s.cell(v).elem is None:
                out.append((s, "py", list(s.cell(v).items), mode, flt))
                continue
            if isinstance(v, VTuple):
                out.append((s, "py", list(v.items), mode, flt))
                continue
            el, t = ex.as_seq(s, v)
            out.append((s, el, t, mode, flt))
        return out

    def exec_for(self, ex, st, node: ast.For, lc, ordinal):
        if node.orelse:
            raise EngineUnsupported("for/else")
        results = []
        for s, el, seq, mode, flt in self.iter_source(ex, st, node.iter):
            if isinstance(el, Raised):
                results.append((s, Outcome(Outcome.RAISE, el.exc)))
                continue
            if el == "py":
                results.extend(self.unroll_for(ex, s, node, seq, mode, flt))
                continue
            if lc is None:
                raise EngineUnsupported(f"for loop at line {node.lineno} over a symbolic sequence has no loop contract")
            results.extend(self.cut_for(ex, s, node, lc, ordinal, el, seq, mode, flt))
        return results

    def bind_target(self, ex, st, target, mode, idx_val, elem):
        if mode == "enumerate":
            return ex.assign(st, target, VTuple([idx_val, elem]))
        return ex.assign(st, target, elem)

    def unroll_for(self, ex, st, node, items, mode, flt):
        states = [(st, Outcome(Outcome.NORMAL))]
        for i, it in enumerate(items):
            nxt = []
            for s, oc in states:
                if oc.kind != Outcome.NORMAL:
                    nxt.append((s, oc))
                    continue
                if flt is not None:
                    raise EngineUnsupported("filtered generator over python-level list")
                self.bind_target(ex, s, node.target, mode, VInt(ival(i)), it)
                for s2, oc2 in ex.exec_block(s, node.body):
                    if oc2.kind == Outcome.CONTINUE:
                        nxt.append((s2, Outcome(Outcome.NORMAL)))
                    elif oc2.kind == Outcome.BREAK:
                        nxt.append((s2, Outcome("done")))
                    else:
                        nxt.append((s2, oc2))
            states = nxt
        return [(s, Outcome(Outcome.NORMAL) if oc.kind == "done" else oc) for s, oc in states]

    def cut_for(self, ex, st, node, lc, ordinal, el, seq, mode, flt):
        n = z3.Length(seq)
        self.retype_locals(ex, st, lc)
        outer = {k: st.env.get(k) for k in ("_i", "_seq")}     # an enclosing loop's ghost index / sequence
        entry = st.clone()
        st.env["_i"] = VInt(ival(0))
        st.env["_seq"] = VStr(seq) if el == "char" else VSeq(el, seq)
        entry.env = dict(st.env)
        self.check_invariant(ex, st, lc, ordinal, "init", entry, node.lineno)
        head = st.clone()
        self.havoc_for_loop(ex, head, node.body, lc, extra_names=self.assigned_names([ast.Expr(node.target)]) if False else ())
        i = fresh(INT, "_i")
        head.env["_i"] = VInt(i)
        head.assume(z3.And(i >= 0, i <= n), "loop-index")
        # the loop target is dead at the head
        for nm in [x.id for x in ast.walk(node.target) if isinstance(x, ast.Name)]:
            head.env.pop(nm, None)
        self.assume_invariant(ex, head, lc, entry)
        out = []
        # exit path
        ex_s = head.clone()
        def restore(s9):
            for k9, v9 in outer.items():
                if v9 is None:
                    s9.env.pop(k9, None)
                else:
                    s9.env[k9] = v9

        if ex.feasible(ex_s, i == n):
            ex_s.assume(i == n, "loop-exit")
            restore(ex_s)
            out.append((ex_s, Outcome(Outcome.NORMAL)))
        # iteration path
        it_s = head.clone()
        it_s.assume(i < n, "loop-iter")
        elem = VStr(z3.Unit(seq[i])) if el == "char" else from_term(seq[i], el)
        self.bind_target(ex, it_s, node.target, mode, VInt(i), elem)

        def after_body(s3, oc):
            if oc.kind in (Outcome.NORMAL, Outcome.CONTINUE):
                s3.env["_i"] = VInt(i + 1)
                self.loop_frame_check(ex, st, head, s3, lc, ordinal, node.lineno)
                self.check_invariant(ex, s3, lc, ordinal, "preserved", entry, node.lineno)
                return []
            if oc.kind == Outcome.BREAK:
                restore(s3)
                return [(s3, Outcome(Outcome.NORMAL))]
            return [(s3, oc)]

        if flt is not None:
            tname, ifs = flt
            it_s.env[tname] = elem
            conds = ex.eval_many(it_s, ifs, lambda s, vs: [(s, vs)])
            for s2, vs in conds:
                if isinstance(vs, Raised):
                    out.append((s2, Outcome(Outcome.RAISE, vs.exc)))
                    continue
                c = z3.And(*[ex.truth(s2, v) for v in vs])
                for s3, b in ex.branch(s2, c):
                    if not b:
                        out.extend(after_body(s3, Outcome(Outcome.CONTINUE)))
                    else:
                        for s4, oc in ex.exec_block(s3, node.body):
                            out.extend(after_body(s4, oc))
        else:
            for s3, oc in ex.exec_block(it_s, node.body):
                out.extend(after_body(s3, oc))
        return out

    # ------------------------------------------------------------------ comprehensions
    def eval_comprehension(self, ex, st, e, kind):
        if len(e.generators) != 1:
            raise EngineUnsupported("nested comprehension")
        g = e.generators[0]

        def k(s, src):
            # python-level source: unroll
            items = None
            if isinstance(src, VTuple):
                items = src.items
            elif isinstance(src, VRef) and isinstance(s.cell(src), ListCell) and s.cell(src).elem is None:
                items = s.cell(src).items
            if items is not None:
                states = [(s, [])]
                for it in items:
                    nxt = []
                    for s2, acc in states:
                        saved = dict(s2.env)
                        ex.assign(s2, g.target, it)
                        conds = [(s2, True)]
                        for cnd in g.ifs:
                            new = []
                            for s3, ok in conds:
                                for s4, cv in ex.eval(s3, cnd):
                                    if isinstance(cv, Raised):
                                        raise EngineUnsupported("exception in comprehension filter")
                                    for s5, b in ex.branch(s4, ex.truth(s4, cv)):
                                        new.append((s5, ok and b))
                            conds = new
                        for s3, ok in conds:
                            if not ok:
                                s3.env = dict(saved)
                                nxt.append((s3, acc))
                                continue
                            for s4, v in ex.eval(s3, e.elt):
                                if isinstance(v, Raised):
                                    raise EngineUnsupported("exception in comprehension element")
                                s4.env = {**saved}
                                nxt.append((s4, acc + [v]))
                    states = nxt
                out = []
                for s2, acc in states:
                    if isinstance(ex, SpecExecutor) or kind == "gen":
                        out.append((s2, VTuple(acc)))
                    else:
                        out.append((s2, s2.alloc(ListCell(None, None, acc))))
                return out
            # symbolic source: pointwise map
            el, t = ex.as_seq(s, src)
            if t is None:
                return [(s, VTuple([]) if isinstance(ex, SpecExecutor) else s.alloc(ListCell(None, None, [])))]
            if g.ifs:
                raise EngineUnsupported("filtered comprehension over a symbolic sequence")
            r = self.symbolic_map(ex, s, el, t, g.target, e.elt)
            if isinstance(ex, SpecExecutor) or kind == "gen":
                return [(s, r)]
            return [(s, s.alloc(ListCell(r.elem, r.t)))]
        return ex.bind(ex.eval(st, g.iter), k)

    def symbolic_map(self, ex, st, el, seq, target, elt_expr, index_name=None) -> VSeq:
        """[f(x) for x in xs] over a symbolic xs.  The element expression must be pure (checked: evaluating it may
        not change the heap).  The result is Map_k(xs, a1..an) for an uninterpreted Map_k that is determined by the
        element expression alone: the python variables it reads are abstracted into parameters a1..an, so the same
        comprehension applied to different argument values is the same function.  Defined pointwise:
        len(Map) == len(xs), Map[j] == f(xs[j], a1..an) (instances added for the index terms of a query)."""
        x = fresh(INT if el == "char" else el.sort(), "cx")
        elem = VStr(z3.Unit(x)) if el == "char" else from_term(x, el)
        s = st.clone()
        nobl = len(ex.obligations)
        bound = {n.id for n in ast.walk(target) if isinstance(n, ast.Name)}
        if index_name:
            bound.add(index_name)
        # abstract the free python variables that hold z3-level values
        params = []          # (placeholder term, actual term)
        for nm in sorted({n.id for n in ast.walk(elt_expr) if isinstance(n, ast.Name) and isinstance(n.ctx, ast.Load)}):
            if nm in bound or nm not in s.env:
                continue
            v = s.env[nm]
            try:
                fv = ex.freeze(s, v) if isinstance(v, (VRef, VTuple)) else v
                if isinstance(v, VRef) and isinstance(s.cell(v), ObjCell):
                    continue
                if not isinstance(fv, (VInt, VBool, VStr, VSeq, VRec, VOpt)):
                    continue
                ty = ty_of_val(fv)
            except EngineUnsupported:
                continue
            ph = fresh(ty.sort(), "p_" + nm)
            s.env[nm] = from_term(ph, ty)
            params.append((ph, to_term(fv, ty)))
        ex.assign(s, target, elem)
        jv = None
        if index_name is not None:
            jv = fresh(INT, "cj")
            s.env[index_name] = VInt(jv)
        # id counters: an element that draws exactly one id per evaluation is a map with index (ids c0 + j)
        counters = []          # (loc, placeholder, original term)
        for loc, c in list(s.heap.items()):
            if isinstance(c, ObjCell) and isinstance(c.fields.get("_id_counter"), VInt):
                ph = fresh(INT, "cnt")
                counters.append((loc, ph, c.fields["_id_counter"].t))
                f2 = dict(c.fields)
                f2["_id_counter"] = VInt(ph)
                s.heap[loc] = ObjCell(c.cls, f2, c.owner, c.view)
        heap_before = dict(s.heap)
        res = ex.eval(s, elt_expr)
        if len(res) != 1 or isinstance(res[0][1], Raised):
            raise EngineUnsupported("comprehension element forks or raises")
        s2, v = res[0]
        drawn = []
        for loc, c in heap_before.items():
            c2 = s2.heap.get(loc)
            if c2 is c:
                continue
            cnt = next((x for x in counters if x[0] == loc), None)
            if cnt is None or not isinstance(c2, ObjCell) or any(
                    c2.fields.get(k) is not c.fields.get(k) for k in set(c.fields) | set(c2.fields) if k != "_id_counter"):
                raise EngineUnsupported("comprehension element has side effects")
            if not z3.is_true(z3.simplify(c2.fields["_id_counter"].t == cnt[1] + 1)):
                raise EngineUnsupported("comprehension element changes an id counter by other than one")
            drawn.append(cnt)
        v = ex.freeze(s2, v)
        rty = ty_of_val(v)
        body = to_term(v, rty)
        if drawn and jv is None:
            jv = fresh(INT, "cj")
        for loc, ph, orig in drawn:
            p0 = fresh(INT, "p_cnt")
            body = z3.substitute(body, (ph, p0 + jv))
            params.append((p0, orig))
        for loc, ph, orig in counters:
            if not any(d[0] == loc for d in drawn):
                body = z3.substitute(body, (ph, orig))
            # the real heap: counter advanced by the number of elements (or unchanged)
            c = st.heap[loc]
            if any(d[0] == loc for d in drawn):
                f2 = dict(c.fields)
                f2["_id_counter"] = VInt(orig + z3.Length(seq))
                st.heap[loc] = ObjCell(c.cls, f2, c.owner, c.view)
        for ob in ex.obligations[nobl:]:
            ob.extra["bound"] = str(x)
            # obligations raised inside the element mention the placeholders: restate them over the actual values
            if params:
                ob.goal = z3.substitute(ob.goal, *params)
                ob.hyps = [(l, z3.substitute(h, *params)) for l, h in ob.hyps]
        # canonical name: body with bound variable / index / placeholders renamed positionally
        ren = [(x, z3.Const("_bv", x.sort()))]
        if jv is not None:
            ren.append((jv, z3.Int("_bj")))
        for i, (ph, _) in enumerate(params):
            ren.append((ph, z3.Const(f"_bp{i}", ph.sort())))
        nb = z3.substitute(body, *ren)
        key = (str(x.sort()), nb.sexpr())
        if key not in self.map_cache:
            self.map_cache[key] = f"Map{len(self.map_cache)}"
        name = self.map_cache[key]
        # remaining free constants (fields of objects etc.) are parameters too
        phs = [p for p, _ in params]
        fvs = [c for c in _free_consts(body) if not z3.eq(c, x) and not (jv is not None and z3.eq(c, jv))
               and not any(z3.eq(c, p) for p in phs)]
        fvs.sort(key=lambda c: str(c))
        M = z3.Function(name, seq.sort(), *[p.sort() for p in phs], *[c.sort() for c in fvs], TSeq(rty).sort())
        mt = M(seq, *[a for _, a in params], *fvs)
        st.assume(z3.Length(mt) == z3.Length(seq), "map-len")
        if name not in self.map_defs:
            # generic definition: applies to every application of the symbol (also those created by unfolding folds)
            pseq = z3.Const("mseq_" + name, seq.sort())
            self.map_defs[name] = MapDef(M, pseq, x, jv, phs, fvs, body)
        return VSeq(rty, mt)

    def eval_dictcomp(self, ex, st, e):
        """the reject_nones shape only: {k: v for k, v in d.items() if v is not None} over a dict with constant keys"""
        g = e.generators[0] if len(e.generators) == 1 else None
        ok = (g is not None and isinstance(g.target, ast.Tuple) and len(g.target.elts) == 2
              and isinstance(e.key, ast.Name) and isinstance(e.value, ast.Name)
              and e.key.id == g.target.elts[0].id and e.value.id == g.target.elts[1].id
              and isinstance(g.iter, ast.Call) and isinstance(g.iter.func, ast.Attribute) and g.iter.func.attr == "items"
              and len(g.ifs) == 1 and isinstance(g.ifs[0], ast.Compare) and isinstance(g.ifs[0].ops[0], ast.IsNot)
              and isinstance(g.ifs[0].left, ast.Name) and g.ifs[0].left.id == e.value.id
              and isinstance(g.ifs[0].comparators[0], ast.Constant) and g.ifs[0].comparators[0].value is None)
        if not ok:
            raise EngineUnsupported("dict comprehension other than {k: v for k, v in d.items() if v is not None}")

        def k(s, d):
            if not (isinstance(d, VRef) and isinstance(s.cell(d), DictCell)):
                raise EngineUnsupported("dict comprehension over a non-literal dict")
            c = s.cell(d)
            items, present = {}, {}
            for key, v in c.items.items():
                p0 = c.present.get(key, True)
                if v is VNone:
                    continue
                if isinstance(v, VOpt):
                    items[key] = from_term(v.ty.val(v.t), v.ty.elem)
                    nn = z3.Not(v.ty.is_none(v.t))
                    present[key] = nn if p0 is True else z3.And(p0, nn)
                else:
                    items[key] = v
                    present[key] = p0
            return [(s, s.alloc(DictCell(items, present, None)))]
        return ex.bind(ex.eval(st, g.iter.func.value), k)

    def exists_pred(self, ex, st, el, seq, target, elt_expr, x: Val):
        """x in (f(e) for e in seq): encoded as Contains(Map_f(seq), [x])."""
        m = self.symbolic_map(ex, st, el, seq, target, elt_expr)
        xt = to_term(ex.freeze(st, x, m.elem), m.elem)
        return z3.Contains(m.t, z3.Unit(xt))


class MapDef:
    """Map_k(seq, p1..pn, c1..cm)[j] == body[x := seq[j], idx := j, placeholders := p1..pn]  and  len(Map) == len(seq)"""

    def __init__(self, M, pseq, x, jv, phs, fvs, body):
        self.M, self.x, self.jv, self.phs, self.fvs, self.body = M, x, jv, phs, fvs, body

    def instance(self, app, j):
        seq = app.arg(0)
        sub = [(self.x, seq[j])]
        if self.jv is not None:
            sub.append((self.jv, j))
        for i, p in enumerate(self.phs):
            sub.append((p, app.arg(1 + i)))
        for i, c in enumerate(self.fvs):
            sub.append((c, app.arg(1 + len(self.phs) + i)))
        b = z3.substitute(self.body, *sub)
        return z3.Implies(z3.And(j >= 0, j < z3.Length(seq)), app[j] == b)

    def length(self, app):
        return z3.Length(app) == z3.Length(app.arg(0))


class GroundFact:
    """A ground fact about an uninterpreted term, added to every query in which the term occurs."""

    def __init__(self, anchor, fact):
        self.mt, self.s, self.fact = anchor, anchor, fact

    def instance(self, j):
        return self.fact


def _pre_state(st, pre_heap):
    s2 = st.clone()
    s2.heap = dict(pre_heap)
    return s2


@dataclass
class MapFact:
    mt: Any
    seq: Any
    x: Any
    body: Any
    extra: list
    jv: Any = None
    params: Any = None

    def instance(self, j):
        b = z3.substitute(self.body, (self.x, self.seq[j]))
        if self.jv is not None:
            b = z3.substitute(b, (self.jv, j))
        if self.params:
            b = z3.substitute(b, *self.params)
        return z3.Implies(z3.And(j >= 0, j < z3.Length(self.seq)), self.mt[j] == b)


def verify_has_quant(t):
    seen = set()

    def walk(x):
        if x.get_id() in seen:
            return False
        seen.add(x.get_id())
        if z3.is_quantifier(x):
            return True
        return any(walk(c) for c in x.children())
    return walk(t)


def _free_consts(t):
    seen, out = set(), []

    def walk(x):
        if x.get_id() in seen:
            return
        seen.add(x.get_id())
        if z3.is_const(x) and x.decl().kind() == z3.Z3_OP_UNINTERPRETED:
            out.append(x)
        for c in x.children():
            walk(c)
    walk(t)
    return out


def _root(n):
    while isinstance(n, (ast.Attribute, ast.Subscript)):
        n = n.value
    return n.id if isinstance(n, ast.Name) else None


def ex_module(ex: Executor) -> str:
    fi = ex.prog.funcs.get(ex.func)
    return fi.module if fi else ""


BUILTIN_NAMES = {"len", "str", "list", "next", "iter", "enumerate", "map", "filter", "deque", "defaultdict", "open",
                 "int", "bool", "tuple", "RuntimeError", "ValueError", "cast", "print", "min", "max", "range", "zip",
                 "sorted", "reversed", "any", "all", "set", "dict", "repr"}

SPEC_BUILTINS = {"implies", "iff", "lstrip", "rstrip", "strip", "lead_ws", "trail_ws", "lead_blank", "trail_blank",
                 "itos", "seq_empty", "iter_pos", "is_space", "all_space", "ite", "length", "strip_crlf",
                 "replace_all", "join_lf", "join_lf_opt", "is_none", "opt_val", "some", "none_of", "typed", "rec_has",
                 "strip_blank", "startswith", "endswith", "split_head", "first_index", "char_at", "contains_ws",
                 "split_off", "split_on", "first_ws_hash", "typed_is_str", "re_matches", "re_group1", "join_sep"}


# ---------------------------------------------------------------------------------------------
class SpecExecutor(Executor):
    """Spec mode: pure, total, non-forking evaluation of contract expressions and spec functions."""

    def __init__(self, parent: Executor, reg: Registry):
        self.__dict__.update(parent.__dict__)
        self.parent = parent
        self.prune = False

    def oblige(self, *a, **k):   # spec expressions are total: no safety obligations
        return

    def ite_val(self, st, c, a: Val, b: Val) -> Val:
        if a is VNone and b is VNone:
            return VNone
        if isinstance(a, VTuple) and isinstance(b, VTuple) and len(a.items) == len(b.items):
            return VTuple([self.ite_val(st, c, x, y) for x, y in zip(a.items, b.items)])
        if a is VNone or b is VNone:
            o = b if a is VNone else a
            oty = o.ty if isinstance(o, VOpt) else TOpt(ty_of_val(self.freeze(st, o)))
            fa, fb = self.freeze(st, a, oty), self.freeze(st, b, oty)
            return VOpt(oty, z3.If(c, fa.t, fb.t))
        fa, fb = self.freeze(st, a), self.freeze(st, b)
        if isinstance(fa, VTuple) and isinstance(fb, VSeq):
            fa = self.freeze(st, fa, TSeq(fb.elem))
        if isinstance(fb, VTuple) and isinstance(fa, VSeq):
            fb = self.freeze(st, fb, TSeq(fa.elem))
        if isinstance(fa, VOpt) != isinstance(fb, VOpt):
            oty = fa.ty if isinstance(fa, VOpt) else fb.ty
            fa, fb = self.freeze(st, fa, oty), self.freeze(st, fb, oty)
        ta, tb = ty_of_val(fa), ty_of_val(fb)
        if ta != tb:
            raise EngineUnsupported(f"conditional of different types {ta} / {tb}")
        return from_term(z3.If(c, to_term(fa, ta), to_term(fb, tb)), ta)

    def ev_IfExp(self, st, e):
        c = self.truth(st, self.one(st, e.test))
        c = z3.simplify(c)
        if z3.is_true(c):
            return self.eval(st, e.body)
        if z3.is_false(c):
            return self.eval(st, e.orelse)
        # specialise the conditional to the current path when the path condition decides it (keeps terms small)
        hy = [h for _, h in st.pc if not verify_has_quant(h)]
        if len(hy) < 60:
            if solve.quick_unsat(hy + [z3.Not(c)], 150):
                self.reg.specialisations += 1       # the value now depends on the path: not memoisable
                return self.eval(st, e.body)
            if solve.quick_unsat(hy + [c], 150):
                self.reg.specialisations += 1
                return self.eval(st, e.orelse)
        return [(st, self.ite_val(st, c, self.one(st, e.body), self.one(st, e.orelse)))]

    def one(self, st, e) -> Val:
        r = self.eval(st, e)
        if len(r) != 1 or isinstance(r[0][1], Raised):
            raise EngineUnsupported("spec expression not single-valued: " + ast.unparse(e)[:60])
        if r[0][0] is not st:
            st.pc = r[0][0].pc
            st.heap = r[0][0].heap
        return r[0][1]

    def ev_BoolOp(self, st, e):
        vals = [self.one(st, v) for v in e.values]
        ts = [self.truth(st, v) for v in vals]
        return [(st, VBool(z3.And(*ts) if isinstance(e.op, ast.And) else z3.Or(*ts)))]

    def ev_List(self, st, e):
        return [(st, VTuple([self.one(st, x) for x in e.elts]))]

    def binop(self, st, op, a, b, node=None):
        if isinstance(op, ast.Add) and (isinstance(a, (VSeq, VTuple)) or isinstance(b, (VSeq, VTuple))) \
                and not (isinstance(a, VTuple) and isinstance(b, VTuple)):
            fa, fb = self.freeze(st, a), self.freeze(st, b)
            if isinstance(fa, VTuple):
                fa = self.freeze(st, fa, TSeq(fb.elem))
            if isinstance(fb, VTuple):
                fb = self.freeze(st, fb, TSeq(fa.elem))
            if fa.elem != fb.elem:
                raise EngineUnsupported("spec list + of different element types")
            return [(st, VSeq(fa.elem, z3.Concat(fa.t, fb.t)))]
        if isinstance(op, ast.Add) and self.is_listlike(st, a) and self.is_listlike(st, b):
            fa, fb = self.freeze(st, a), self.freeze(st, b)
            return [(st, VSeq(fa.elem, z3.Concat(fa.t, fb.t)))]
        return super().binop(st, op, a, b, node)

    def ev_Compare(self, st, e):
        if len(e.ops) > 1:
            # chained comparison a <= b < c
            vals = [self.one(st, e.left)] + [self.one(st, c) for c in e.comparators]
            ts = []
            for i, op in enumerate(e.ops):
                r = self.compare(st, op, vals[i], vals[i + 1], e)
                ts.append(r[0][1].t)
            return [(st, VBool(z3.And(*ts)))]
        return super().ev_Compare(st, e)

    def index(self, st, base, idx, node=None):
        # spec expressions are total: indexes are taken as in range (a concrete negative index counts from the end)
        if isinstance(base, (VStr, VSeq)) or (isinstance(base, VRef) and isinstance(st.cell(base), ListCell)
                                              and st.cell(base).elem is not None):
            el, t = self.as_seq(st, base)
            i = z3.simplify(self.as_int(idx))
            if z3.is_int_value(i) and i.as_long() < 0:
                i = z3.Length(t) + i
            if isinstance(base, VStr):
                return [(st, VStr(z3.Unit(t[i])))]
            return [(st, from_term(t[i], el))]
        return super().index(st, base, idx, node)

    def slice(self, st, base, lo, hi):
        r = super().slice(st, base, lo, hi)
        if isinstance(r, VRef):
            c = st.cell(r)
            return VSeq(c.elem, c.seq) if c.elem is not None else VTuple(c.items)
        return r

    def special_old(self, st, e, which):
        s = st.clone()
        if which == "old":
            if st.pre_heap is None:
                raise EngineUnsupported("old() without pre-state")
            s.heap = dict(st.pre_heap)
            pe = st.ghost.get("$params")
            if pe:
                s.env = dict(st.env)
                s.env.update(pe)
            v = self.one(s, e.args[0])
            return [(st, self.detach(s, v))]
        entry = st.ghost.get("$entry")
        if entry is None:
            raise EngineUnsupported("entry() outside a loop contract")
        s.heap = dict(entry.heap)
        s.env = dict(entry.env)
        v = self.one(s, e.args[0])
        return [(st, self.detach(s, v))]

    def detach(self, s, v):
        """Values read in an old state are frozen so they do not alias the current heap."""
        if isinstance(v, VRef):
            return self.freeze(s, v)
        return v

    def special_quant(self, st, e, which):
        """forall(n, lambda j: P(j))  with integer range 0 <= j < n.  As a hypothesis it is instantiated at the
        index terms of the query; as a goal it is skolemised (both done in verify.instantiate)."""
        n = self.as_int(self.one(st, e.args[0]))
        lam = e.args[1]
        j = fresh(INT, "q" + lam.args.args[0].arg)
        s = st.clone()
        s.env = dict(st.env)
        s.env[lam.args.args[0].arg] = VInt(j)
        body = self.truth(s, self.one(s, lam.body))
        rng = z3.And(j >= 0, j < n)
        if which == "forall":
            q = z3.ForAll([j], z3.Implies(rng, body))
        else:
            q = z3.Exists([j], z3.And(rng, body))
        return [(st, VBool(q))]

    def special_fold(self, st, e, which):
        return strings.spec_fold(self, self.reg, st, e, which)

    def special_map(self, st, e):
        src = self.one(st, e.args[0])
        lam = e.args[1]
        el, t = self.as_seq(st, src)
        tgt = ast.Name(id=lam.args.args[0].arg, ctx=ast.Store())
        idx = lam.args.args[1].arg if len(lam.args.args) > 1 else None
        if t is None:
            raise EngineUnsupported("seq_map over an untyped empty list")
        return [(st, self.reg.symbolic_map(self, st, el, t, tgt, lam.body, index_name=idx))]
