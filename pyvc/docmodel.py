"""Document models for the whole-pipeline bounded stand-ins: a model is rendered to source text with known positions,
and the expected AST (cucumber messages shape, ids in canonical order) is computed from the model -- independently of
the implementation.  Used by pyvc/enum_documents.py (runs under the repository interpreter)."""
from __future__ import annotations

import itertools
import random


class Layout:
    def __init__(self, eol="\n", indent_unit="  ", trailing="", final_eol=True, extra_indent=0):
        self.eol, self.indent_unit, self.trailing, self.final_eol, self.extra_indent = eol, indent_unit, trailing, final_eol, extra_indent


class Renderer:
    """renders lines and records, for every AST node, its expected location"""

    def __init__(self, layout: Layout):
        self.lo = layout
        self.lines = []
        self.comments = []

    def ind(self, depth):
        return self.lo.indent_unit * depth + " " * self.lo.extra_indent

    def add(self, text, trailing_ok=True):
        self.lines.append(text + (self.lo.trailing if trailing_ok else ""))
        return len(self.lines)

    def raw(self, text):
        self.lines.append(text)
        return len(self.lines)

    def source(self):
        s = self.lo.eol.join(self.lines)
        return s + (self.lo.eol if self.lo.final_eol else "")


def esc_cell(t):
    return t.replace("\\", "\\\\").replace("|", "\\|").replace("\n", "\\n")


class Builder:
    """model -> (source text, expected ast without ids, id order)"""

    def __init__(self, layout, keywords=None, language="en"):
        self.r = Renderer(layout)
        self.k = keywords or {"feature": "Feature", "rule": "Rule", "background": "Background", "scenario": "Scenario",
                              "outline": "Scenario Outline", "examples": "Examples"}
        self.language = language
        self.ids = itertools.count()
        self.pending = []

    def loc(self, line, col):
        return {"line": line, "column": col}

    def tags(self, depth, names_per_line):
        out = []
        for names in names_per_line:
            if not names:
                continue
            pre = self.r.ind(depth)
            text = pre
            cols = []
            for i, n in enumerate(names):
                sep = " "
                if isinstance(n, tuple):
                    n, sep = n
                cols.append(len(text) + 1)
                text += n + (sep if i < len(names) - 1 else "")
            names = [x[0] if isinstance(x, tuple) else x for x in names]
            ln = self.r.add(text)
            for n, c in zip(names, cols):
                out.append({"location": self.loc(ln, c), "name": n, "_id": None})
        return out

    def description(self, depth, lines):
        """lines: list of ('text', s) | ('comment', s) | ('blank',)"""
        texts = []
        started = False
        for item in lines:
            if item[0] == "blank":
                ln = self.r.raw("")
                if started:
                    texts.append("")
            elif item[0] == "comment":
                ln = self.r.raw(self.r.ind(depth) + "# " + item[1])
                self.r.comments.append({"location": self.loc(ln, 1), "text": self.r.ind(depth) + "# " + item[1]})
                started = True
            else:
                t = self.r.ind(depth) + item[1]
                self.r.raw(t)
                texts.append(t)
                started = True
        while texts and not texts[-1].strip():
            texts.pop()
        return "\n".join(texts)

    def table(self, depth, rows):
        out = []
        for row in rows:
            pre = self.r.ind(depth)
            text = pre + "|"
            cells = []
            for c in row:
                raw = esc_cell(c)
                col = len(text) + 2 if raw else len(text) + 2
                seg = " " + raw + " |"
                # column of the first non-blank character of the cell, or of the closing pipe for an empty cell
                first = len(text) + 1 + (1 if raw else 2)
                cells.append({"location": self.loc(None, first), "value": c})
                text += seg
            ln = self.r.add(text)
            for c in cells:
                c["location"]["line"] = ln
            out.append({"location": self.loc(ln, len(pre) + 1), "cells": cells, "_id": None})
        return out

    def step(self, depth, st):
        kw, ktype, text = st["keyword"], st["type"], st["text"]
        pre = self.r.ind(depth)
        ln = self.r.add(pre + kw + text)
        node = {"location": self.loc(ln, len(pre) + 1), "keyword": kw, "keywordType": ktype, "text": text.strip(), "_id": None}
        arg = st.get("arg")
        if arg and arg[0] == "table":
            rows = self.table(depth + 1, arg[1])
            node["dataTable"] = {"location": rows[0]["location"], "rows": rows}
            node["_rows"] = rows
        elif arg and arg[0] == "doc":
            delim, media, content_lines = arg[1], arg[2], arg[3]
            suffix = arg[4] if len(arg) > 4 else ""
            p2 = self.r.ind(depth + 1)
            l0 = self.r.add(p2 + delim + media)
            for cl in content_lines:
                self.r.raw((p2 + cl) if cl != "" else "")
            self.r.add(p2 + delim + suffix)
            esc = '\\"\\"\\"' if delim == '"""' else "\\`\\`\\`"
            ds = {"location": self.loc(l0, len(p2) + 1),
                  "content": "\n".join(cl.replace(esc, delim) for cl in content_lines), "delimiter": delim}
            if media.strip():
                ds["mediaType"] = media.strip()
            node["docString"] = ds
        return node

    def assign(self, node):
        node["id"] = str(next(self.ids))

    def finish_step(self, s):
        for r in s.pop("_rows", []):
            self.assign(r)
            r.pop("_id", None)
        self.assign(s)
        s.pop("_id", None)

    def scenario(self, depth, sc):
        tags = self.tags(depth, sc.get("tags", []))
        kw = self.k["outline"] if sc.get("outline_kw") else self.k["scenario"]
        pre = self.r.ind(depth)
        ln = self.r.add(pre + kw + ":" + sc["name"])
        desc = self.description(depth + 1, sc.get("description", []))
        steps = [self.step(depth + 1, s) for s in sc.get("steps", [])]
        examples = []
        for ex in sc.get("examples", []):
            etags = self.tags(depth + 1, ex.get("tags", []))
            p2 = self.r.ind(depth + 1)
            eln = self.r.add(p2 + self.k["examples"] + ":" + ex.get("name", ""))
            edesc = self.description(depth + 2, ex.get("description", []))
            rows = self.table(depth + 2, ex.get("rows", []))
            examples.append({"tags": etags, "location": self.loc(eln, len(p2) + 1), "keyword": self.k["examples"],
                             "name": ex.get("name", "").strip(), "description": edesc, "_rows": rows})
        node = {"tags": tags, "location": self.loc(ln, len(pre) + 1), "keyword": kw, "name": sc["name"].strip(),
                "description": desc, "steps": steps, "examples": examples}
        return node

    def finish_scenario(self, node):
        # canonical id order: steps (rows first), examples (rows, tags, examples), tags, scenario
        for s in node["steps"]:
            self.finish_step(s)
        for ex in node["examples"]:
            rows = ex.pop("_rows")
            for r in rows:
                self.assign(r)
                r.pop("_id", None)
            for t in ex["tags"]:
                self.assign(t)
                t.pop("_id", None)
            self.assign(ex)
            if rows:
                ex["tableHeader"] = rows[0]
            ex["tableBody"] = rows[1:]
        for t in node["tags"]:
            self.assign(t)
            t.pop("_id", None)
        self.assign(node)

    def background(self, depth, bg):
        pre = self.r.ind(depth)
        ln = self.r.add(pre + self.k["background"] + ":" + bg.get("name", ""))
        desc = self.description(depth + 1, bg.get("description", []))
        steps = [self.step(depth + 1, s) for s in bg.get("steps", [])]
        node = {"location": self.loc(ln, len(pre) + 1), "keyword": self.k["background"], "name": bg.get("name", "").strip(),
                "description": desc, "steps": steps}
        for s in steps:
            self.finish_step(s)
        self.assign(node)
        return node

    def children(self, depth, kids):
        out = []
        for kind, m in kids:
            if kind == "background":
                out.append({"background": self.background(depth, m)})
            elif kind == "scenario":
                n = self.scenario(depth, m)
                self.finish_scenario(n)
                out.append({"scenario": n})
            elif kind == "rule":
                tags = self.tags(depth, m.get("tags", []))
                pre = self.r.ind(depth)
                ln = self.r.add(pre + self.k["rule"] + ":" + m["name"])
                desc = self.description(depth + 1, m.get("description", []))
                sub = self.children(depth + 1, m.get("children", []))
                for t in tags:
                    self.assign(t)
                    t.pop("_id", None)
                node = {"tags": tags, "location": self.loc(ln, len(pre) + 1), "keyword": self.k["rule"],
                        "name": m["name"].strip(), "description": desc, "children": sub}
                self.assign(node)
                out.append({"rule": node})
            elif kind == "blank":
                self.r.raw("")
            elif kind == "comment":
                ln = self.r.raw(self.r.ind(depth) + "#" + m)
                self.r.comments.append({"location": self.loc(ln, 1), "text": self.r.ind(depth) + "#" + m})
        return out

    def document(self, doc):
        if doc.get("language_header"):
            ln = self.r.raw("# language: " + self.language)
            self.r.comments_before = True
        feature = None
        if "feature" in doc:
            f = doc["feature"]
            tags = self.tags(0, f.get("tags", []))
            pre = self.r.ind(0)
            ln = self.r.add(pre + self.k["feature"] + ":" + f["name"])
            desc = self.description(1, f.get("description", []))
            kids = self.children(1, f.get("children", []))
            for t in tags:
                self.assign(t)
                t.pop("_id", None)
            feature = {"tags": tags, "location": self.loc(ln, len(pre) + 1), "language": self.language,
                       "keyword": self.k["feature"], "name": f["name"].strip(), "description": desc, "children": kids}
        ast = {"comments": self.r.comments}
        if feature is not None:
            ast["feature"] = feature
        return self.r.source(), ast, next(self.ids)


# ---------------------------------------------------------------------------------------------
# families of models
# ---------------------------------------------------------------------------------------------
STEPS = [
    {"keyword": "Given ", "type": "Context", "text": "a <a> thing"},
    {"keyword": "And ", "type": "Conjunction", "text": "another  thing "},
    {"keyword": "* ", "type": "Unknown", "text": "star"},
    {"keyword": "When ", "type": "Action", "text": "x", "arg": ("table", [["a", "b|c"], ["", "d\\e"], ["n\nl", "z"]])},
    {"keyword": "Then ", "type": "Outcome", "text": "y", "arg": ("doc", '"""', "", ["Feature: not a feature", "  @tag", "", "| x |", "```", "# c"])},
    {"keyword": "But ", "type": "Conjunction", "text": "z", "arg": ("doc", "```", " json", ['"""', "  indented"])},
    {"keyword": "Given ", "type": "Context", "text": "e", "arg": ("doc", '"""', "", [])},
    {"keyword": "When ", "type": "Action", "text": "closing line with trailing text",
     "arg": ("doc", '"""', "", ["payload"], " end of payload")},
    {"keyword": "Then ", "type": "Outcome", "text": "escapes",
     "arg": ("doc", "```", "", ['say \\"\\"\\" here', "and \\`\\`\\` there"], " done")},
    {"keyword": "Then ", "type": "Outcome", "text": "escapes 2",
     "arg": ("doc", '"""', "", ['say \\"\\"\\" here', "and \\`\\`\\` there"])},
    {"keyword": "Given ", "type": "Context", "text": "form\x0cfeed and line\u2028separator and next\x85line"},
    {"keyword": "When ", "type": "Action", "text": "both <a><b>, nested <<a>>, empty <> and <b> again",
     "arg": ("table", [["<b>", "<a>"], ["<>", "x<a>y"]])},
    {"keyword": "And ", "type": "Conjunction", "text": "<b> then <a>", "arg": ("doc", '"""', " <a>", ["<b> in content", "<a>"])},
]
DESCS = [[], [("text", "plain words")], [("text", "pasted\u2028text with\x0bodd\x1cseparators")], [("blank",), ("text", "after blank"), ("blank",), ("text", "more"), ("blank",)],
         [("comment", "lead"), ("blank",), ("text", "t")], [("text", "t"), ("comment", "inside"), ("text", "u")]]
TAGSETS = [[], [["@a"]], [["@a", "@b"], ["@c"]], [["@a", "@a"], ["@b", "@a"]], [[("@a", "  "), ("@wide", "\t \t"), ("@b", ""), "@adjacent", ("@\U0001F600x", "   "), "@z"]]]
EXAMPLES = [
    {"rows": [["a", "b"], ["1", "2"]]},
    {"tags": [["@e"]], "name": " named ", "rows": [["a"], ["x"], ["y|z"]]},
    {"rows": []},
    {"rows": [["h"]], "description": [("text", "d")]},
    {"rows": [["b", "a"], ["B", "A"], ["<a>", "q"]]},
    {"rows": [["a", "", "b"], ["1", "2", "3"]]},
    {"tags": [["@e", "@e"]], "rows": [["a", "a"], ["first", "second"], ["x", "y"]]},
    {"rows": [["a"], ["v"]], "description": [("text", "first"), ("blank",), ("text", "after a blank line"), ("comment", "c"), ("text", "end")]},
]


def fixed_documents():
    """Always-included documents that combine the features random sampling may miss in a small sample: several examples
    tables with different / permuted / blank / repeated headers and several rows, placeholders everywhere, values that
    contain placeholders, repeated tags on one element, step-less scenarios under backgrounds, rules after rules."""
    def sc(name, steps, examples=(), tags=(), kw=True):
        return ("scenario", {"name": name, "tags": list(tags), "description": [], "steps": [dict(STEPS[i]) for i in steps],
                             "examples": [dict(EXAMPLES[i]) for i in examples], "outline_kw": bool(examples) and kw})

    def bg(steps):
        return ("background", {"name": "", "description": [], "steps": [dict(STEPS[i]) for i in steps]})
    yield {"feature": {"name": " placeholders", "tags": [["@a", "@a"], ["@b", "@a"]], "description": [], "children": [
        bg([0, 1]),
        sc(" <a> then <b>", [11, 12, 1, 2], examples=[0, 4, 7, 5, 6], tags=[["@a", "@a"]]),
        sc(" no steps", [], examples=[0]),
        sc(" plain without steps", []),
        ("rule", {"name": " r1", "tags": [["@a", "@a"], ["@b", "@a"]], "description": [], "children": [
            bg([3]), sc(" <b><a>", [1, 11], examples=[6, 7, 4, 1]), sc(" stepless in rule", [])]}),
        ("rule", {"name": " r2", "tags": [], "description": [], "children": [
            bg([2]), sc(" after r1", [12, 0], examples=[5, 0], kw=False)]}),
    ]}, "language_header": False}
    yield {"feature": {"name": " f", "tags": [], "description": [], "children": [
        sc(" only outline", [1, 2, 12], examples=[4, 4]),
        sc(" <a>", [4, 5, 6, 7, 8, 9], examples=[1, 2, 3, 0]),
        ("rule", {"name": " r", "tags": [["@c"]], "description": [], "children": [bg([0, 1])]}),
    ]}, "language_header": True}


def sample_documents(rnd: random.Random, n):
    for d in fixed_documents():
        yield d
    for _ in range(n):
        def steps(k):
            return [dict(rnd.choice(STEPS)) for _ in range(k)]

        def scenario():
            ex = [dict(rnd.choice(EXAMPLES)) for _ in range(rnd.choice([0, 0, 1, 2, 3]))]
            return ("scenario", {"name": rnd.choice([" s", "", " a  b ", " <a> then <b>"]), "tags": rnd.choice(TAGSETS),
                                 "description": rnd.choice(DESCS), "steps": steps(rnd.choice([0, 1, 2, 3])),
                                 "examples": ex, "outline_kw": bool(ex) and rnd.random() < 0.7})

        def background():
            return ("background", {"name": rnd.choice(["", " bg"]), "description": rnd.choice(DESCS),
                                   "steps": steps(rnd.choice([0, 1, 2]))})
        kids = []
        if rnd.random() < 0.5:
            kids.append(background())
        for _ in range(rnd.choice([0, 1, 2])):
            kids.append(scenario())
            if rnd.random() < 0.3:
                kids.append(("blank", None))
            if rnd.random() < 0.2:
                kids.append(("comment", " between"))
        for _ in range(rnd.choice([0, 0, 1, 2])):
            rk = []
            if rnd.random() < 0.5:
                rk.append(background())
            for _ in range(rnd.choice([0, 1, 2])):
                rk.append(scenario())
            kids.append(("rule", {"name": " r", "tags": rnd.choice(TAGSETS), "description": rnd.choice(DESCS), "children": rk}))
        doc = {"feature": {"name": rnd.choice([" f", " A feature "]), "tags": rnd.choice(TAGSETS),
                           "description": rnd.choice(DESCS), "children": kids},
               "language_header": rnd.random() < 0.3}
        yield doc


def strip_locations(x, keep_line=False):
    if isinstance(x, dict):
        return {k: strip_locations(v, keep_line) for k, v in x.items() if k != "location" and not k.startswith("_")}
    if isinstance(x, list):
        return [strip_locations(v, keep_line) for v in x]
    return x
