"""Parser-level bounded stand-in (B) and replay generator for Layer B (parser.py).

Runs the REAL Parser + TokenMatcher of $VERIF_REPO on every sequence of line kinds up to a bound, each kind rendered
as one canonical source line, with a recording builder, and compares with the reference transducer derived from
gherkin.berp (pyvc/grammar.py):
  * acceptance, the sequence of start_rule / end_rule / build events (rule nesting),
  * every line handed to the builder exactly once, in order, with its line number, then one EOF -- or reported as
    an unexpected line (never both, never neither),
  * errors at the right lines, stop-at-first-error raising the first collected error.
Usage: enum_parser_traces.py [--bound N] [--max-fail K] [--doc-file f.json]   -> one JSON line
This is a bounded check of the real code (never counted as proved); it also validates the kind abstraction used by
the automaton obligations against the implementation (traces_validated_against_impl).
"""
from __future__ import annotations

import argparse
import itertools
import json
import os
import sys
import time

VERIF = os.path.dirname(os.path.dirname(os.path.abspath(__file__)))
REPO = os.environ.get("VERIF_REPO", "/repo")
sys.path.insert(0, VERIF)
sys.path.insert(0, os.path.join(REPO, "python"))

from pyvc.grammar import Reference, LINE_KINDS  # noqa: E402

RENDER = {
    "Empty": "", "Comment": "# a comment", "Language": "# language: en", "TagLine": "  @tag",
    "FeatureLine": "Feature: f", "RuleLine": "  Rule: r", "BackgroundLine": "  Background: b",
    "ScenarioLine": "  Scenario: s", "ExamplesLine": "    Examples: e", "StepLine": "    Given a step",
    "DocStringSeparator": '      """', "TableRow": "      | a |", "Other": "  free text",
}
KINDSETS = dict(LINE_KINDS)


class Recorder:
    def __init__(self):
        self.reset()

    def reset(self):
        self.events = []

    def start_rule(self, r):
        self.events.append(("start", r))

    def end_rule(self, r):
        self.events.append(("end", r))

    def build(self, token):
        self.events.append(("build", token.location["line"], "EOF" if token.eof() else token.matched_type))

    def get_result(self):
        return list(self.events)


def reference_run(ref: Reference, kinds):
    """Expected events / errors for a document given as a list of kind names (EOF appended)."""
    pos = ref.start
    events = [("start", "GherkinDocument")]
    errors = []
    seq = list(kinds) + ["EOF"]
    in_doc = False
    for i, k in enumerate(seq):
        line = i + 1
        ks = set(KINDSETS[k])
        # inside a doc string the matcher recognises only the separator; everything else is content
        opts = ref.follow[pos]
        inside = any(o.kind == "Other" for o in opts) and any(o.kind == "DocStringSeparator" for o in opts) and \
            not any(o.kind == "Comment" for o in opts)
        if inside and k not in ("DocStringSeparator", "EOF"):
            ks = {"Other"}
        # look-ahead oracle: first line after this one that is not blank / comment / tag
        oracle = None
        if "TagLine" in ks:
            for k2 in seq[i + 1:]:
                if k2 in ("Empty", "Comment", "TagLine", "Language"):
                    continue
                oracle = k2 if k2 in ("ScenarioLine", "ExamplesLine") else None
                break
        r = ref.step(pos, ks, oracle)
        if r[0] == "ignored":
            events.append(("build", line, k if k != "Language" else "Comment"))
        elif r[0] == "go":
            evs = list(r[1])
            newpos = r[2]
            tok_kind = next(p for p in ref.positions if p.pos == newpos).name
            for e in evs:
                if e[0] == "build":
                    events.append(("build", line, tok_kind))
                else:
                    events.append(e)
            pos = newpos
        else:
            errors.append(line)
    return events, errors


def real_run(text, stop):
    from gherkin.parser import Parser
    from gherkin.token_scanner import TokenScanner
    from gherkin.errors import CompositeParserException, ParserException
    rec = Recorder()
    p = Parser(rec)
    p.stop_at_first_error = stop
    try:
        ev = p.parse(TokenScanner(text))
        return ev, [], None
    except CompositeParserException as e:
        return rec.events, [(x.location["line"], str(x)) for x in e.errors], "composite"
    except ParserException as e:
        return rec.events, [(e.location["line"], str(e))], "single"


def check_doc(ref, kinds):
    text = "".join(RENDER[k] + "\n" for k in kinds)
    if os.path.exists(text):      # the scanner would open it as a file (known finding D5): not a source text
        return None
    exp_events, exp_errors = reference_run(ref, kinds)
    ev, errs, how = real_run(text, False)
    problems = []
    if exp_errors:
        if how != "composite":
            problems.append(f"reference rejects at lines {exp_errors} but parse returned {how or 'a document'}")
        else:
            got = [l for l, _ in errs]
            if got[:11] != exp_errors[:11]:
                problems.append(f"error lines {got} differ from the reference {exp_errors}")
            bad = [m for l, m in errs if not m.startswith(f"({l}:")]
            if bad:
                problems.append(f"error message does not start with its position: {bad[:1]}")
        # delivered-or-reported: every line is built or reported, never both
        built = [e[1] for e in ev if e[0] == "build"]
        rep = set(exp_errors)
        n = len(kinds) + 1
        if len(exp_errors) <= 10:
            if sorted(built + list(rep)) != list(range(1, n + 1)):
                problems.append(f"lines built {built} + reported {sorted(rep)} are not each line exactly once")
        ev2, errs2, how2 = real_run(text, True)
        if how2 != "single" or not errs or errs2[0] != errs[0]:
            problems.append(f"stop-at-first-error raised {errs2[:1]} but collecting mode lists {errs[:1]} first")
    else:
        if how is not None:
            problems.append(f"reference accepts but parse raised {errs[:2]}")
        else:
            want = exp_events + [("end", "GherkinDocument")]
            got = [("start", "GherkinDocument")] + [tuple(e) for e in ev]
            got = [tuple(e) for e in ev]
            if got != [tuple(e) for e in want]:
                k = next((i for i, (a, b) in enumerate(zip(got, want)) if a != b), min(len(got), len(want)))
                problems.append(f"events differ at #{k}: parser {got[k:k+3]} reference {want[k:k+3]}")
            built = [e[1] for e in got if e[0] == "build"]
            if built != list(range(1, len(kinds) + 2)):
                problems.append(f"builder received lines {built}, expected each of 1..{len(kinds)+1} once in order")
    if problems:
        return {"kinds": list(kinds), "text": text, "problems": problems}
    return False


def main():
    ap = argparse.ArgumentParser()
    ap.add_argument("--bound", type=int, default=4)
    ap.add_argument("--max-fail", type=int, default=3)
    ap.add_argument("--time-limit", type=float, default=600)
    a = ap.parse_args()
    ref = Reference(os.path.join(REPO, "gherkin.berp"))
    names = [k for k in RENDER]
    fails, n = [], 0
    t0 = time.time()
    exhausted = True
    # documents start with an optional header part and then all kind sequences up to the bound; to reach deep
    # states within the bound, sequences are also run behind fixed prefixes
    prefixes = [[], ["FeatureLine"], ["FeatureLine", "ScenarioLine"], ["FeatureLine", "ScenarioLine", "StepLine"],
                ["FeatureLine", "BackgroundLine", "StepLine"], ["FeatureLine", "RuleLine"],
                ["FeatureLine", "ScenarioLine", "StepLine", "ExamplesLine", "TableRow"],
                ["FeatureLine", "RuleLine", "BackgroundLine", "StepLine", "DocStringSeparator"],
                ["FeatureLine", "ScenarioLine", "StepLine", "DocStringSeparator"]]
    seen = set()
    try:
        for pre in prefixes:
            for ln in range(0, a.bound + 1):
                for seq in itertools.product(names, repeat=ln):
                    kinds = tuple(pre) + seq
                    if kinds in seen:
                        continue
                    seen.add(kinds)
                    r = check_doc(ref, kinds)
                    if r is None:
                        continue
                    n += 1
                    if r:
                        fails.append(r)
                        if len(fails) >= a.max_fail:
                            raise StopIteration
                    if time.time() - t0 > a.time_limit:
                        exhausted = False
                        raise StopIteration
    except StopIteration:
        pass
    res = {"results": [{"name": f"parser-traces::bounded[all line-kind sequences up to length {a.bound} behind {len(prefixes)} prefixes]",
                        "ok": not fails, "size": n, "detail": fails[0]["problems"][0] if fails else None,
                        "witness": fails[:2] or None, "exhausted": exhausted and not fails}],
           "wall_s": round(time.time() - t0, 2)}
    print(json.dumps(res, ensure_ascii=False))


if __name__ == "__main__":
    main()
