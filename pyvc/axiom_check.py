"""Validation of the trusted axioms about CPython (DESIGN.md 3.5) against the interpreter that runs the repository.

Every axiom the VC generator assumes about str / re / io / collections is restated here as an executable reading and
compared with CPython on a bounded domain (all strings over a small alphabet up to a length bound; all code points for
the character classes).  This does not prove the axioms; it guards against a reading that is simply wrong.

    VERIF_REPO=/repo /venv/bin/python pyvc/axiom_check.py [bound]      exit 0: all readings agree; 1: a disagreement
Prints one JSON object.  The white-space code points and the regex literals are read from pyvc/sym.py and from the
repository source (so a changed literal is validated as changed).
"""
import ast
import collections
import io
import itertools
import json
import os
import re
import sys
import tempfile

VERIF = os.path.dirname(os.path.dirname(os.path.abspath(__file__)))
REPO = os.environ.get("VERIF_REPO", "/repo")


def ws_codepoints():
    src = open(os.path.join(VERIF, "pyvc", "sym.py"), encoding="utf8").read()
    for node in ast.walk(ast.parse(src)):
        if isinstance(node, ast.Assign) and isinstance(node.targets[0], ast.Name) and node.targets[0].id == "WS_CODEPOINTS":
            return set(ast.literal_eval(node.value))
    raise RuntimeError("WS_CODEPOINTS not found")


def strings(alpha, n):
    for k in range(n + 1):
        for t in itertools.product(alpha, repeat=k):
            yield "".join(t)


def lead(s, pred):
    k = 0
    while k < len(s) and pred(s[k]):
        k += 1
    return k


def trail(s, pred):
    k = len(s)
    while k > 0 and pred(s[k - 1]):
        k -= 1
    return k


def main():
    bound = int(sys.argv[1]) if len(sys.argv) > 1 else 5
    WS = ws_codepoints()
    is_ws = lambda c: ord(c) in WS                      # noqa: E731
    is_blank = lambda c: ord(c) in WS and c != "\n"     # noqa: E731
    results = []

    def rec(name, ok, n, detail=None):
        results.append({"name": name, "ok": bool(ok), "cases": n, "detail": detail})

    # ---- character classes, over every code point
    bad = [cp for cp in range(0x110000) if chr(cp).isspace() != (cp in WS)]
    rec("class::isspace == WS_CODEPOINTS (all 0x110000 code points)", not bad, 0x110000, bad[:5])
    rx = re.compile(r"\s")
    bad = [cp for cp in range(0x110000) if bool(rx.match(chr(cp))) != (cp in WS)]
    rec("class::regex \\s == WS_CODEPOINTS", not bad, 0x110000, bad[:5])
    rx = re.compile(r"[^\S\n]", re.U)
    bad = [cp for cp in range(0x110000) if bool(rx.match(chr(cp))) != (cp in WS and cp != 10)]
    rec("class::regex [^\\S\\n] == WS minus LF (BLANK)", not bad, 0x110000, bad[:5])
    rx = re.compile(r"[^\S+]")
    bad = [cp for cp in range(0x110000) if bool(rx.match(chr(cp))) != (cp in WS)]
    rec("class::regex [^\\S+] == WS", not bad, 0x110000, bad[:5])

    alpha = [" ", "\t", "\n", "\r", " ", "x", "#", "\U0001F600"]
    S = list(strings(alpha, bound))
    # ---- strip family  (ax:lead-*, ax:trail-*)
    bad = [s for s in S if s.lstrip() != s[lead(s, is_ws):] or s.rstrip() != s[:trail(s, is_ws)]
           or s.strip() != s[lead(s, is_ws):][:trail(s[lead(s, is_ws):], is_ws)]]
    rec("str::lstrip/rstrip/strip == maximal WS runs removed", not bad, len(S), bad[:3])
    crlf = lambda c: c in "\r\n"                        # noqa: E731
    bad = [s for s in S if s.rstrip("\r\n") != s[:trail(s, crlf)]]
    rec("str::rstrip('\\r\\n') == maximal CR/LF suffix removed", not bad, len(S), bad[:3])
    # ---- regex shapes used by the repository (read from its source)
    bad = [s for s in S if re.sub(r"^[^\S\n]*", "", s, flags=re.U) != s[lead(s, is_blank):]]
    rec("regex::sub('^[^\\S\\n]*','') == maximal BLANK prefix removed (shape lead)", not bad, len(S), bad[:3])
    bad = [s for s in S if re.sub(r"[^\S\n]*\Z", "", s, flags=re.U) != s[:trail(s, is_blank)]]
    rec("regex::sub('[^\\S\\n]*\\Z','') == maximal BLANK suffix removed (shape trail)", not bad, len(S), bad[:3])

    def first_pair(s):
        for j in range(len(s) - 1):
            if is_ws(s[j]) and s[j + 1] == "#":
                return j
        return -1
    bad = []
    for s in S:
        p = first_pair(s)
        head = s[:p] if p >= 0 else s
        if re.split(r"\s#", s, maxsplit=2)[0] != head:
            bad.append(s)
    rec("regex::split('\\s#', s, 2)[0] == text before the first (WS,'#') pair (shape pair)", not bad, len(S), bad[:3])
    bad = [s for s in S if (re.search(r"[^\S+]", s) is not None) != any(is_ws(c) for c in s)]
    rec("regex::search('[^\\S+]') is not None == contains a WS character (shape has)", not bad, len(S), bad[:3])
    bad = []
    for s in S + [w * k + t for w in (" ", "\t", "\u00a0") for k in range(0, 9) for t in ("|", "|x", "x|", "")]:
        L = lead(s, is_ws)
        if bool(re.match("^\\s\\s\\s?\\s?\\s?\\|", s.replace("#", "|"))) != (2 <= L <= 5 and L < len(s) and s.replace("#", "|")[L] == "|"):
            bad.append(s)
    rec("regex::match('^\\s\\s\\s?\\s?\\s?\\|') == 2..5 leading WS characters then '|' (shape lead_range)", not bad, len(S), bad[:3])
    # the literals themselves must still be the ones validated here
    src = open(os.path.join(REPO, "python", "gherkin", "gherkin_line.py"), encoding="utf8").read()
    lits = sorted({n.value for n in ast.walk(ast.parse(src)) if isinstance(n, ast.Constant) and isinstance(n.value, str)
                   and any(ch in n.value for ch in ("\\S", "\\s", "\\Z"))})
    known = {r"^[^\S\n]*", r"[^\S\n]*\Z", r"\s#", r"[^\S+]"}
    # informational only: a changed or added literal is not an axiom failure -- the VC generator parses whatever literal
    # it finds with re._parser and a literal outside the validated shapes puts the function out of reach
    results.append({"name": "regex::literals of gherkin_line.py outside the validated set (informational)", "ok": True,
                    "cases": len(lits), "detail": [x for x in lits if x not in known]})

    # ---- split / join / replace / prefix / itos
    T = list(strings(["|", "\\", "n", "a", " "], bound))
    bad = [s for s in T if "|".join(s.split("|")) != s or len(s.split("|")) < 1 or any("|" in x for x in s.split("|"))
           or len(s.split("|")) != s.count("|") + 1]
    rec("str::split(c): items without c, count(c)+1 items, join restores (ax:split-*)", not bad, len(T), bad[:3])
    small = list(strings(["a", "b", "<", ">"], 4))
    olds = ["", "a", "ab", "<a>", "b"]
    bad = []
    for s in small:
        for o in olds:
            for nw in ("", "x", "a"):
                r = s.replace(o, nw)
                if o not in s and r != s:
                    bad.append((s, o, nw, "identity"))
                if s == "" and r != (nw if o == "" else s):
                    bad.append((s, o, nw, "empty"))
    rec("str::replace: identity when absent; '' source (ax:replace-*)", not bad, len(small) * len(olds) * 3, bad[:3])
    bad = [x for x in ([], ["a"], ["", "b"]) if ("\n".join(x) != ("" if not x else x[0] if len(x) == 1 else "\n".join(x)))]
    rec("str::join: empty and singleton lists (ax:join-*)", not bad and "\n".join([]) == "" and ",".join(["q"]) == "q", 3)
    bad = [(p, s) for s in small for p in small[:60] if s.startswith(p) and not (len(p) <= len(s) and s[:len(p)] == p)]
    rec("str::startswith(p) => s[:len(p)] == p (ax:prefix-def)", not bad, len(small) * 60, bad[:3])
    ints = list(range(-50, 2000)) + [10 ** k for k in range(4, 12)]
    bad = [n for n in ints if int(str(n)) != n or len(str(n)) == 0]
    rec("str::str(int) non-empty and injective via int() (ax:itos-*)", not bad and len({str(n) for n in ints}) == len(ints), len(ints))
    # ---- deque.extendleft (ax:reverse)
    bad = []
    for xs in ([], [1], [1, 2, 3]):
        d = collections.deque([9])
        d.extendleft(xs)
        if list(d) != list(reversed(xs)) + [9]:
            bad.append(xs)
    rec("deque::extendleft prepends the reversed sequence (ax:reverse)", not bad, 3, bad)
    # ---- text streams (T-io): readline yields the LF-terminated segments, then '' for ever; file reading
    L = list(strings(["a", "\n", "\r", " "], bound + 1))
    bad = []
    for s in L:
        f = io.StringIO(s)
        segs = []
        while True:
            ln = f.readline()
            if ln == "":
                break
            segs.append(ln)
        if "".join(segs) != s or any(len(x) == 0 for x in segs) or any("\n" in x[:-1] for x in segs) \
                or any(not x.endswith("\n") for x in segs[:-1]) or f.readline() != "" or f.readline() != "":
            bad.append(s)
    rec("io::StringIO(s).readline(): non-empty LF-terminated segments in order whose concatenation is s, then '' for ever",
        not bad, len(L), bad[:3])
    bad = []
    with tempfile.TemporaryDirectory() as td:
        p = os.path.join(td, "f.feature")
        for s in L[:400] + ["a\r\nb\r\n", "é\U0001F600\r\n"]:
            with open(p, "w", encoding="utf8", newline="") as fh:
                fh.write(s)
            raw = open(p, encoding="utf8", newline="").read()
            tr = open(p, encoding="utf8").read()
            if raw != s or tr != s.replace("\r\n", "\n").replace("\r", "\n"):
                bad.append(s)
    rec("io::open(newline='').read() is the text unchanged; default mode translates CRLF/CR to LF (file_text(p, raw))",
        not bad, 402, bad[:3])
    ok = all(r["ok"] for r in results)
    print(json.dumps({"ok": ok, "bound": bound, "python": sys.version.split()[0], "results": results}, ensure_ascii=False))
    return 0 if ok else 1


if __name__ == "__main__":
    sys.exit(main())
