"""CPython runtime of the spec builtins (the executable reading of the contract language).

The same spec texts are translated to SMT by pyvc (strings.spec_builtin) and executed here as the oracle for
replay and for the bounded stand-ins.  pyvc/axiom_check.py compares both readings on a bounded domain.
"""
import itertools

Str, Int, Bool, NoneT = "Str", "Int", "Bool", "NoneT"


def TupleOf(*a):
    return ("TupleOf",) + a


def ListOf(a):
    return ("ListOf", a)


def implies(a, b):
    return (not a) or bool(b)


def iff(a, b):
    return bool(a) == bool(b)


def ite(c, a, b):
    return a if c else b


def lstrip(s):
    return s.lstrip()


def rstrip(s):
    return s.rstrip()


def strip(s):
    return s.strip()


def lead_ws(s):
    return len(s) - len(s.lstrip())


def trail_ws(s):
    return len(s.rstrip())


def _is_blank(c):
    return c.isspace() and c != "\n"


def lead_blank(s):
    n = 0
    while n < len(s) and _is_blank(s[n]):
        n += 1
    return n


def trail_blank(s):
    n = len(s)
    while n > 0 and _is_blank(s[n - 1]):
        n -= 1
    return n


def strip_blank(s):
    s = s[lead_blank(s):]
    return s[:trail_blank(s)]


def strip_crlf(s):
    return s.rstrip("\r\n")


def all_space(s):
    return all(c.isspace() for c in s)


def contains_ws(s):
    return any(c.isspace() for c in s)


def is_space(c):
    return c.isspace()


def itos(n):
    return str(n)


def length(x):
    return len(x)


def replace_all(s, old, new):
    return s.replace(old, new)


def join_lf(xs):
    return "\n".join(xs)


def startswith(s, p):
    return s.startswith(p)


def endswith(s, p):
    return s.endswith(p)


def seq_empty(_ty=None):
    return []


def is_none(x):
    return x is None


def opt_val(x):
    return x


def rec_has(d, k):
    return k in d


def char_at(s, i):
    return ord(s[i]) if 0 <= i < len(s) else -1


def first_index(s, c):
    return s.find(c)


def split_on(s, sep):
    return s.split(sep)


def split_off(items, k):
    return sum(len(items[j]) + 1 for j in range(k))


def first_ws_hash(s):
    for j in range(len(s) - 1):
        if s[j].isspace() and s[j + 1] == "#":
            return j
    return -1


def forall(n, pred):
    return all(pred(j) for j in range(n))


def exists(n, pred):
    return any(pred(j) for j in range(n))


def fold_prefix(xs, n, init, step, *extra):
    acc = init
    for i in range(max(0, min(n, len(xs)))):
        acc = step(acc, xs[i], i, *extra)
    return acc


def fold(xs, init, step, *extra):
    return fold_prefix(xs, len(xs), init, step, *extra)


def seq_map(xs, f):
    return [f(x) for x in xs]


def iter_pos(_it):
    raise NotImplementedError("iter_pos is a ghost function (loop invariants only)")


# ---- input generators for the bounded stand-ins ------------------------------------------------
def strings(alphabet, max_len, min_len=0):
    for n in range(min_len, max_len + 1):
        for t in itertools.product(alphabet, repeat=n):
            yield "".join(t)


def lists_of(items, max_len):
    items = list(items)
    for n in range(max_len + 1):
        for t in itertools.product(items, repeat=n):
            yield list(t)


def typed(_name, d):
    return d


def opt_key(d, key, present, value):
    r = dict(d)
    if present:
        r[key] = value
    return r


def mk(_view, **fields):
    return dict(fields)


def seq_mapi(xs, f):
    return [f(x, j) for j, x in enumerate(xs)]


def stoi(s):
    return int(s)


def typed_is_str(x):
    return isinstance(x, str)


def re_matches(pattern, text):
    import re
    return re.match(pattern, text) is not None


def re_group1(pattern, text):
    import re
    m = re.match(pattern, text)
    return m.group(1) if m else ""


def ghost(name, *args):
    raise NotImplementedError("ghost functions have no run-time reading")


def join_lf_opt(xs):
    return "\n".join(xs)


def join_sep(sep, xs):
    return sep.join(xs)


def ghost_val(name, _ty, *args):
    raise NotImplementedError("ghost functions have no run-time reading")


def same_ref(_x):
    raise NotImplementedError("same_ref has no run-time reading (object identity across states)")
