"""PyVC symbolic executor: forward symbolic execution of the real function bodies (python ``ast``),
modular in calls (callee contract, never callee body, unless the callee is declared ``inline``),
loops cut at their invariants.  See DESIGN.md section 3.
"""
from __future__ import annotations

import ast
import copy
from dataclasses import dataclass, field
from typing import Any

import z3

from . import solve
from .sym import *  # noqa: F401,F403
from .sym import (EngineUnsupported, VInt, VBool, VStr, VNone, VSeq, VTuple, VRec, VOpt, VRef, VFunc, VClass, VMap, TMap,
                  VBuiltin, VPy, Val, ListCell, DictCell, ObjCell, IterCell, TInt, TBool, TStr, TSeq, TOpt, TTuple,
                  TRec, Ty, T_INT, T_BOOL, T_STR, STR, INT, BOOL, mk_str, ival, fresh, fresh_val, to_term,
                  from_term, ty_of_val, new_loc, concrete_str, is_space)


# ---------------------------------------------------------------------------------------------
@dataclass
class Raised:
    exc: Val            # VRef to an exception ObjCell


@dataclass
class Obligation:
    name: str
    kind: str           # post | xpost | safety | call.pre | loop.init | loop.preserved | loop.variant | frame | lemma | assert
    func: str
    hyps: list          # list of (label, z3 Bool)
    goal: Any           # z3 Bool
    serves: list
    lineno: int = 0
    boundary: bool = True
    clause: str = ""
    extra: dict = field(default_factory=dict)


class State:
    __slots__ = ("env", "heap", "pc", "trace", "ghost", "pre_heap")

    def __init__(self):
        self.env: dict[str, Val] = {}
        self.heap: dict[int, Any] = {}
        self.pc: list = []           # list of (label, z3 Bool)
        self.trace: list = []        # ghost events
        self.ghost: dict = {}
        self.pre_heap = None

    def clone(self):
        s = State()
        s.env = dict(self.env)
        s.heap = dict(self.heap)
        s.pc = list(self.pc)
        s.trace = list(self.trace)
        s.ghost = dict(self.ghost)
        s.pre_heap = self.pre_heap
        return s

    def assume(self, t, label="assume"):
        if z3.is_expr(t) and z3.is_true(z3.simplify(t)):
            return
        self.pc.append((label, t))

    # heap helpers: cells are replaced, never mutated in place, so clones stay independent
    def alloc(self, cell) -> VRef:
        loc = new_loc()
        self.heap[loc] = cell
        return VRef(loc)

    def cell(self, ref: VRef):
        return self.heap[ref.loc]

    def set_cell(self, ref: VRef, cell):
        self.heap[ref.loc] = cell


class Outcome:
    NORMAL, RETURN, RAISE, BREAK, CONTINUE = "normal", "return", "raise", "break", "continue"

    def __init__(self, kind, value=None):
        self.kind = kind
        self.value = value


# ---------------------------------------------------------------------------------------------
class Executor:
    """One instance per function verification (collects obligations)."""

    def __init__(self, program, registry, func_qualname):
        self.prog = program
        self.reg = registry            # contracts.Registry
        self.func = func_qualname
        self.obligations: list[Obligation] = []
        self.cur_serves = ["C01"]
        self.depth = 0
        self.loop_ordinal = {}
        self.assumptions_used = set()
        self.prune = True
        self.max_paths = 4000
        self.npaths = 0

    # ------------------------------------------------------------------ obligations
    def oblige(self, st: State, name, goal, kind="safety", serves=None, lineno=0, boundary=True, clause="",
               assume_after=True, extra=None):
        if not z3.is_expr(goal):
            goal = z3.BoolVal(bool(goal))
        ob = Obligation(name=f"{self.func}::{name}", kind=kind, func=self.func, hyps=list(st.pc), goal=goal,
                        serves=list(serves or self.cur_serves), lineno=lineno, boundary=boundary, clause=clause,
                        extra=extra or {})
        self.obligations.append(ob)
        if assume_after:
            st.assume(goal, "obl:" + name)

    # ------------------------------------------------------------------ branching
    def feasible(self, st: State, cond=None) -> bool:
        if not self.prune:
            return True
        hy = [h for _, h in st.pc]
        if cond is not None:
            hy = hy + [cond]
        return not solve.quick_unsat(hy)

    def branch(self, st: State, cond) -> list:
        """Return [(state, bool)] for feasible outcomes of symbolic condition cond (z3 Bool)."""
        cond = z3.simplify(cond)
        if z3.is_true(cond):
            return [(st, True)]
        if z3.is_false(cond):
            return [(st, False)]
        out = []
        if self.feasible(st, cond):
            s1 = st.clone()
            s1.assume(cond, "branch")
            out.append((s1, True))
        nc = z3.simplify(z3.Not(cond))
        if self.feasible(st, nc):
            s2 = st.clone()
            s2.assume(nc, "branch")
            out.append((s2, False))
        return out

    # ------------------------------------------------------------------ value helpers
    def truth(self, st: State, v: Val):
        """z3 Bool for python truthiness of v."""
        if v is VNone:
            return z3.BoolVal(False)
        if isinstance(v, VBool):
            return v.t
        if isinstance(v, VInt):
            return v.t != 0
        if isinstance(v, (VStr, VSeq)):
            return z3.Length(v.t) > 0
        if isinstance(v, VTuple):
            return z3.BoolVal(len(v.items) > 0)
        if isinstance(v, VOpt):
            inner = from_term(v.ty.val(v.t), v.ty.elem)
            return z3.And(z3.Not(v.ty.is_none(v.t)), self.truth(st, inner))
        if isinstance(v, VRec):
            if getattr(v.ty, "truthy", None) is not None:
                return v.ty.truthy(v.t)
            return z3.BoolVal(True)   # records/objects without __bool__/__len__: truthy; dict records: non-empty
        if isinstance(v, VRef):
            c = st.cell(v)
            if isinstance(c, ListCell):
                if c.elem is not None:
                    return z3.Length(c.seq) > 0
                return z3.BoolVal(len(c.items) > 0)
            if isinstance(c, DictCell):
                pres = [p for p in c.present.values()]
                if any(p is True for p in pres):
                    return z3.BoolVal(True)
                return z3.Or(*pres) if pres else z3.BoolVal(False)
            return z3.BoolVal(True)
        if isinstance(v, (VFunc, VClass, VBuiltin, VPy)):
            return z3.BoolVal(True)
        raise EngineUnsupported(f"truth of {v!r}")

    def as_seq(self, st: State, v: Val):
        """View v as (elemTy, z3 seq term) if possible."""
        if isinstance(v, VSeq):
            return v.elem, v.t
        if isinstance(v, VStr):
            return None, v.t
        if isinstance(v, VRef):
            c = st.cell(v)
            if isinstance(c, ListCell):
                if c.elem is not None:
                    return c.elem, c.seq
                if not c.items:
                    return None, None
                ty = ty_of_val(self.freeze(st, c.items[0]))
                terms = [z3.Unit(to_term(self.freeze(st, i), ty)) for i in c.items]
                return ty, (terms[0] if len(terms) == 1 else z3.Concat(*terms))
        if isinstance(v, VTuple):
            if not v.items:
                return None, None
            ty = ty_of_val(self.freeze(st, v.items[0]))
            terms = [z3.Unit(to_term(self.freeze(st, i), ty)) for i in v.items]
            return ty, (terms[0] if len(terms) == 1 else z3.Concat(*terms))
        raise EngineUnsupported(f"not a sequence: {v!r}")

    def freeze(self, st: State, v: Val, ty: Ty | None = None) -> Val:
        """Turn heap structures (dict cells, list cells, record-class objects) into immutable z3-level values."""
        if isinstance(v, VRef):
            c = st.cell(v)
            if isinstance(c, DictCell):
                rty = ty if isinstance(ty, TRec) else c.ty
                if rty is None:
                    rty = self.reg.record_for_keys(set(c.items.keys()))
                if rty is None:
                    raise EngineUnsupported(f"dict with keys {sorted(c.items)} matches no record type")
                vals, has = {}, {}
                for k, fty, opt in rty.fields:
                    if k in c.items:
                        pk = c.present.get(k, True)
                        if opt and pk is not True and z3.is_false(z3.simplify(pk)):
                            has[k] = False          # key certainly absent: its value is irrelevant
                            continue
                        vals[k] = to_term(self.freeze(st, c.items[k], fty), fty)
                        has[k] = pk
                    else:
                        if not opt:
                            raise EngineUnsupported(f"dict lacks required key {k} of {rty.name}")
                        has[k] = False
                for k in c.items:
                    if k not in rty.index:
                        raise EngineUnsupported(f"dict key {k} not in record {rty.name}")
                return VRec(rty, rty.mk(vals, has))
            if isinstance(c, ListCell):
                if c.elem is not None:
                    return VSeq(c.elem, c.seq)
                ety = ty.elem if isinstance(ty, TSeq) else None
                if not c.items:
                    if ety is None:
                        raise EngineUnsupported("empty python-level list of unknown element type")
                    return VSeq(ety, z3.Empty(z3.SeqSort(ety.sort())))
                items = [self.freeze(st, i, ety) for i in c.items]
                ety = ety or ty_of_val(items[0])
                terms = [z3.Unit(to_term(i, ety)) for i in items]
                return VSeq(ety, terms[0] if len(terms) == 1 else z3.Concat(*terms))
            if isinstance(c, ObjCell):
                rty = self.reg.class_record(c.cls)
                if rty is None:
                    raise EngineUnsupported(f"object of class {c.cls} has no record form")
                vals = {}
                for k, fty, opt in rty.fields:
                    if k not in c.fields:
                        raise EngineUnsupported(f"object {c.cls} lacks field {k}")
                    vals[k] = to_term(self.freeze(st, c.fields[k], fty), fty)
                return VRec(rty, rty.mk(vals))
            raise EngineUnsupported(f"freeze of cell {c!r}")
        if isinstance(v, VTuple):
            if isinstance(ty, TSeq):
                items = [self.freeze(st, i, ty.elem) for i in v.items]
                if not items:
                    return VSeq(ty.elem, z3.Empty(ty.sort()))
                terms = [z3.Unit(to_term(i, ty.elem)) for i in items]
                return VSeq(ty.elem, terms[0] if len(terms) == 1 else z3.Concat(*terms))
            if isinstance(ty, TTuple) and len(ty.items) == len(v.items):
                return VTuple([self.freeze(st, i, t) for i, t in zip(v.items, ty.items)])
            return VTuple([self.freeze(st, i) for i in v.items])
        if isinstance(v, VRec) and isinstance(ty, TRec) and v.ty != ty:
            # width coercion between dict shapes: a python dict has no nominal type, so a record whose keys are all
            # keys of `ty` (same field types; the remaining keys of `ty` optional) *is* a `ty` dict
            if all(k in ty.index and ty.index[k][0] == fty for k, fty, _ in v.ty.fields) and all(
                    o or k in v.ty.index for k, _, o in ty.fields):
                vals, has = {}, {}
                for k, fty, o in ty.fields:
                    if k in v.ty.index:
                        vals[k] = v.ty.get(v.t, k)
                        has[k] = v.ty.has(v.t, k) if v.ty.index[k][1] else True
                        if o is False and v.ty.index[k][1]:
                            raise EngineUnsupported(f"optional key {k} of {v.ty.name} where {ty.name} requires it")
                    else:
                        has[k] = False
                return VRec(ty, ty.mk(vals, has))
        if isinstance(ty, TOpt) and not isinstance(v, VOpt):
            if v is VNone:
                return VOpt(ty, ty.none())
            return VOpt(ty, ty.some(to_term(self.freeze(st, v, ty.elem), ty.elem)))
        return v

    def eq(self, st: State, a: Val, b: Val):
        """z3 Bool for python == on the supported value kinds."""
        if a is VNone or b is VNone:
            if a is VNone and b is VNone:
                return z3.BoolVal(True)
            o = b if a is VNone else a
            if isinstance(o, VOpt):
                return o.ty.is_none(o.t)
            return z3.BoolVal(False)
        if isinstance(a, VOpt) or isinstance(b, VOpt):
            if isinstance(a, VOpt) and isinstance(b, VOpt):
                if a.ty != b.ty:
                    raise EngineUnsupported("== on optionals of different types")
                na, nb = a.ty.is_none(a.t), b.ty.is_none(b.t)
                return z3.And(na == nb, z3.Implies(z3.Not(na), self.eq(st, from_term(a.ty.val(a.t), a.ty.elem),
                                                                         from_term(b.ty.val(b.t), b.ty.elem))))
            o, x = (a, b) if isinstance(a, VOpt) else (b, a)
            x = self.freeze(st, x, o.ty.elem)
            return z3.And(z3.Not(o.ty.is_none(o.t)), self.eq(st, from_term(o.ty.val(o.t), o.ty.elem), x))
        if isinstance(a, VBool) and isinstance(b, VBool):
            return a.t == b.t
        if isinstance(a, (VInt, VBool)) and isinstance(b, (VInt, VBool)):
            return self.as_int(a) == self.as_int(b)
        if isinstance(a, VStr) and isinstance(b, VStr):
            return a.t == b.t
        if isinstance(a, VStr) != isinstance(b, VStr):
            if isinstance(a, (VInt, VBool, VStr)) and isinstance(b, (VInt, VBool, VStr)):
                return z3.BoolVal(False)
        # a dict / list object compared with a typed value takes that value's type
        ta = ty_of_val(a) if isinstance(a, (VRec, VSeq)) else None
        tb = ty_of_val(b) if isinstance(b, (VRec, VSeq)) else None
        fa, fb = self.freeze(st, a, tb), self.freeze(st, b, ta)
        if isinstance(fa, VTuple) and isinstance(fb, VTuple):
            if len(fa.items) != len(fb.items):
                return z3.BoolVal(False)
            return z3.And(*[self.eq(st, x, y) for x, y in zip(fa.items, fb.items)]) if fa.items else z3.BoolVal(True)
        if isinstance(fa, VSeq) and isinstance(fb, VTuple):
            fb = self.freeze(st, fb, TSeq(fa.elem))
        if isinstance(fb, VSeq) and isinstance(fa, VTuple):
            fa = self.freeze(st, fa, TSeq(fb.elem))
        if isinstance(fa, VSeq) and isinstance(fb, VSeq):
            if fa.elem != fb.elem:
                raise EngineUnsupported(f"== on sequences of different element types {fa.elem} / {fb.elem}")
            return fa.t == fb.t
        if isinstance(fa, VRec) and isinstance(fb, VRec):
            if fa.ty != fb.ty:
                raise EngineUnsupported(f"== on records of different types {fa.ty} / {fb.ty}")
            if any(o or isinstance(t, (TSeq, TRec, TOpt)) for _, t, o in fa.ty.fields):
                # dict equality: same keys present, equal values for the present keys
                cs = []
                for k, fty, o in fa.ty.fields:
                    va, vb = from_term(fa.ty.get(fa.t, k), fty), from_term(fb.ty.get(fb.t, k), fty)
                    e = self.eq(st, va, vb)
                    if o:
                        ha, hb = fa.ty.has(fa.t, k), fb.ty.has(fb.t, k)
                        cs.append(z3.And(ha == hb, z3.Implies(ha, e)))
                    else:
                        cs.append(e)
                return z3.And(*cs)
            return fa.t == fb.t
        raise EngineUnsupported(f"== between {a!r} and {b!r}")

    def as_int(self, v: Val):
        if isinstance(v, VInt):
            return v.t
        if isinstance(v, VBool):
            return z3.If(v.t, 1, 0)
        raise EngineUnsupported(f"int expected, got {v!r}")

    # ------------------------------------------------------------------ expression evaluation
    # eval returns list[(State, Val|Raised)]
    def bind(self, results, fn):
        out = []
        for st, v in results:
            if isinstance(v, Raised):
                out.append((st, v))
            else:
                out.extend(fn(st, v))
        return out

    def eval_many(self, st: State, exprs: list, k):
        """Evaluate exprs left to right, then call k(state, [vals]) -> results."""
        def step(st, i, acc):
            if i == len(exprs):
                return k(st, acc)
            return self.bind(self.eval(st, exprs[i]), lambda s, v: step(s, i + 1, acc + [v]))
        return step(st, 0, [])

    def eval(self, st: State, e: ast.expr) -> list:
        self.npaths += 1
        if self.npaths > 200000:
            raise EngineUnsupported("path budget exceeded")
        m = getattr(self, "ev_" + type(e).__name__, None)
        if m is None:
            raise EngineUnsupported(f"expression {type(e).__name__} at line {getattr(e, 'lineno', '?')}")
        return m(st, e)

    def ev_Constant(self, st, e):
        v = e.value
        if v is None:
            return [(st, VNone)]
        if isinstance(v, bool):
            return [(st, VBool(z3.BoolVal(v)))]
        if isinstance(v, int):
            return [(st, VInt(ival(v)))]
        if isinstance(v, str):
            return [(st, VStr(mk_str(v)))]
        raise EngineUnsupported(f"constant {v!r}")

    def ev_Name(self, st, e):
        if e.id in st.env:
            return [(st, st.env[e.id])]
        v = self.lookup_global(e.id)
        if v is None:
            raise EngineUnsupported(f"unbound name {e.id} (line {e.lineno})")
        return [(st, v)]

    def lookup_global(self, name):
        return self.reg.lookup_global(self, name)

    def ev_JoinedStr(self, st, e):
        parts = []
        for v in e.values:
            if isinstance(v, ast.Constant):
                parts.append(v)
            elif isinstance(v, ast.FormattedValue) and v.conversion == -1 and v.format_spec is None:
                parts.append(v.value)
            else:
                raise EngineUnsupported("f-string with conversion/format spec")

        def k(s, vals):
            ts = []
            for x in vals:
                if not isinstance(x, VStr):
                    raise EngineUnsupported("f-string part is not str")
                ts.append(x.t)
            return [(s, VStr(z3.Concat(*ts) if len(ts) > 1 else (ts[0] if ts else mk_str(""))))]
        return self.eval_many(st, parts, k)

    def ev_Tuple(self, st, e):
        if any(isinstance(x, ast.Starred) for x in e.elts):
            raise EngineUnsupported("starred in tuple")
        return self.eval_many(st, e.elts, lambda s, vals: [(s, VTuple(vals))])

    def ev_List(self, st, e):
        if any(isinstance(x, ast.Starred) for x in e.elts):
            # [*a, x, *b]  ==  list(a) + [x] + list(b)   (a new list)
            parts = [ast.Call(func=ast.Name(id="list", ctx=ast.Load()), args=[x.value], keywords=[]) if isinstance(x, ast.Starred)
                     else ast.List(elts=[x], ctx=ast.Load()) for x in e.elts]
            expr = parts[0]
            for p_ in parts[1:]:
                expr = ast.BinOp(left=expr, op=ast.Add(), right=p_)
            ast.copy_location(expr, e)
            ast.fix_missing_locations(expr)
            return self.eval(st, expr)

        def k(s, vals):
            ref = s.alloc(ListCell(elem=None, seq=None, items=list(vals)))
            return [(s, ref)]
        return self.eval_many(st, e.elts, k)

    def ev_Dict(self, st, e):
        # left-to-right: key then value (keys are constants or names bound to str constants)
        keys, vals, spreads = [], [], []
        for kx, vx in zip(e.keys, e.values):
            keys.append(kx)
            vals.append(vx)

        def k(s, vs):
            items, present = {}, {}
            for kx, v in zip(keys, vs):
                if kx is None:  # **spread
                    src = v
                    if isinstance(src, VRef) and isinstance(s.cell(src), DictCell):
                        c = s.cell(src)
                        items.update(c.items)
                        present.update(c.present)
                    elif isinstance(src, VRec):
                        for fk, fty, opt in src.ty.fields:
                            items[fk] = from_term(src.ty.get(src.t, fk), fty)
                            present[fk] = src.ty.has(src.t, fk) if opt else True
                    else:
                        raise EngineUnsupported("** of non-dict")
                    continue
                key = self.const_key(s, kx)
                items[key] = v
                present[key] = True
            ref = s.alloc(DictCell(items=items, present=present))
            return [(s, ref)]
        return self.eval_many(st, vals, k)

    def const_key(self, st, kx):
        if isinstance(kx, ast.Constant) and isinstance(kx.value, str):
            return kx.value
        if isinstance(kx, ast.Constant) and isinstance(kx.value, int) and not isinstance(kx.value, bool):
            return kx.value          # integer keys of a literal table (the parser's state map)
        if isinstance(kx, ast.Name) and kx.id in st.env and isinstance(st.env[kx.id], VStr):
            c = concrete_str(st.env[kx.id].t)
            if c is not None:
                return c
        raise EngineUnsupported("dict key is not a constant string")

    def ev_IfExp(self, st, e):
        narrow = self.none_test(st, e.test)

        def k(s, c):
            out = []
            for s2, b in self.branch(s, self.truth(s, c)):
                if narrow is not None:
                    name, none_when_true = narrow
                    v = s2.env.get(name)
                    if isinstance(v, VOpt):
                        saved = v
                        s2.env[name] = self.narrow_value(v, none_when_true, b)
                        for s3, r in self.eval(s2, e.body if b else e.orelse):
                            s3.env[name] = saved
                            out.append((s3, r))
                        continue
                out.extend(self.eval(s2, e.body if b else e.orelse))
            return out
        return self.bind(self.eval(st, e.test), k)

    def ev_BoolOp(self, st, e):
        is_and = isinstance(e.op, ast.And)

        def step(s, i):
            def k(s2, v):
                if i == len(e.values) - 1:
                    return [(s2, v)]
                out = []
                for s3, b in self.branch(s2, self.truth(s2, v)):
                    if b == is_and:
                        out.extend(step(s3, i + 1))
                    else:
                        out.append((s3, v))
                return out
            return self.bind(self.eval(s, e.values[i]), k)
        return step(st, 0)

    def ev_UnaryOp(self, st, e):
        def k(s, v):
            if isinstance(e.op, ast.Not):
                return [(s, VBool(z3.Not(self.truth(s, v))))]
            if isinstance(e.op, ast.USub):
                return [(s, VInt(-self.as_int(v)))]
            raise EngineUnsupported("unary op")
        return self.bind(self.eval(st, e.operand), k)

    def ev_BinOp(self, st, e):
        return self.eval_many(st, [e.left, e.right], lambda s, vs: self.binop(s, e.op, vs[0], vs[1], e))

    def binop(self, st, op, a, b, node=None):
        if isinstance(op, ast.Add):
            if isinstance(a, (VInt, VBool)) and isinstance(b, (VInt, VBool)):
                return [(st, VInt(self.as_int(a) + self.as_int(b)))]
            if isinstance(a, VStr) and isinstance(b, VStr):
                return [(st, VStr(z3.Concat(a.t, b.t)))]
            if isinstance(a, VTuple) and isinstance(b, VTuple):
                return [(st, VTuple(a.items + b.items))]
            # list + list -> new list
            if self.is_listlike(st, a) and self.is_listlike(st, b):
                return [(st, self.concat_lists(st, a, b))]
            raise EngineUnsupported(f"+ on {a!r}, {b!r} (line {getattr(node, 'lineno', '?')}): TypeError possible")
        if isinstance(op, ast.Sub):
            return [(st, VInt(self.as_int(a) - self.as_int(b)))]
        if isinstance(op, ast.Mult):
            if isinstance(a, (VInt, VBool)) and isinstance(b, (VInt, VBool)):
                return [(st, VInt(self.as_int(a) * self.as_int(b)))]
            raise EngineUnsupported("* on non-ints")
        raise EngineUnsupported(f"binary operator {type(op).__name__}")

    def is_listlike(self, st, v):
        if isinstance(v, VSeq):
            return True
        return isinstance(v, VRef) and isinstance(st.cell(v), ListCell)

    def concat_lists(self, st, a, b) -> VRef:
        ca = st.cell(a) if isinstance(a, VRef) else None
        cb = st.cell(b) if isinstance(b, VRef) else None
        if ca is not None and cb is not None and ca.elem is None and cb.elem is None:
            return st.alloc(ListCell(None, None, list(ca.items) + list(cb.items)))
        ea, ta = self.as_seq(st, a)
        eb, tb = self.as_seq(st, b)
        el = ea or eb
        if el is None:
            return st.alloc(ListCell(None, None, []))
        if ta is None:
            return st.alloc(ListCell(el, tb))
        if tb is None:
            return st.alloc(ListCell(el, ta))
        if ea != eb:
            raise EngineUnsupported(f"list + list with element types {ea} / {eb}")
        return st.alloc(ListCell(el, z3.Concat(ta, tb)))

    def ev_Compare(self, st, e):
        if len(e.ops) != 1:
            raise EngineUnsupported("chained comparison")
        op = e.ops[0]
        if isinstance(op, (ast.In, ast.NotIn)) and isinstance(e.comparators[0], ast.GeneratorExp):
            return self.ev_in_genexp(st, e.left, e.comparators[0], isinstance(op, ast.NotIn))
        return self.eval_many(st, [e.left, e.comparators[0]], lambda s, vs: self.compare(s, op, vs[0], vs[1], e))

    def compare(self, st, op, a, b, node=None):
        if isinstance(op, ast.Eq):
            return [(st, VBool(self.eq(st, a, b)))]
        if isinstance(op, ast.NotEq):
            return [(st, VBool(z3.Not(self.eq(st, a, b))))]
        if isinstance(op, (ast.Is, ast.IsNot)):
            neg = isinstance(op, ast.IsNot)
            if a is VNone or b is VNone:
                t = self.eq(st, a, b)
            elif isinstance(a, VRef) and isinstance(b, VRef):
                t = z3.BoolVal(a.loc == b.loc)
            elif isinstance(a, VBool) and isinstance(b, VBool):
                t = a.t == b.t          # True / False are singletons: identity is equality
            else:
                raise EngineUnsupported("'is' on non-None values")
            return [(st, VBool(z3.Not(t) if neg else t))]
        if isinstance(op, (ast.Lt, ast.LtE, ast.Gt, ast.GtE)):
            x, y = self.as_int(a), self.as_int(b)
            t = {ast.Lt: x < y, ast.LtE: x <= y, ast.Gt: x > y, ast.GtE: x >= y}[type(op)]
            return [(st, VBool(t))]
        if isinstance(op, (ast.In, ast.NotIn)):
            t = self.contains(st, b, a)
            return [(st, VBool(z3.Not(t) if isinstance(op, ast.NotIn) else t))]
        raise EngineUnsupported("comparison operator")

    def contains(self, st, container, item):
        if isinstance(container, VStr):
            if not isinstance(item, VStr):
                raise EngineUnsupported("'in <str>' with non-str")
            return z3.Contains(container.t, item.t)
        if isinstance(container, VRec):
            k = self.concrete_key(item)
            if k in container.ty.index:
                return container.ty.has(container.t, k)
            return z3.BoolVal(False)
        if isinstance(container, VRef):
            c = st.cell(container)
            if isinstance(c, DictCell):
                k = self.concrete_key(item)
                if k in c.items:
                    p = c.present.get(k, True)
                    return z3.BoolVal(True) if p is True else p
                return z3.BoolVal(False)
            if isinstance(c, ListCell) and c.elem is None:
                return z3.Or(*[self.eq(st, i, item) for i in c.items]) if c.items else z3.BoolVal(False)
        if isinstance(container, VTuple):
            return z3.Or(*[self.eq(st, i, item) for i in container.items]) if container.items else z3.BoolVal(False)
        if isinstance(container, (VSeq,)) or isinstance(container, VRef):
            el, t = self.as_seq(st, container)
            if t is None:
                return z3.BoolVal(False)
            it = to_term(self.freeze(st, item, el), el)
            return z3.Contains(t, z3.Unit(it))
        raise EngineUnsupported(f"'in' on {container!r}")

    def concrete_key(self, item):
        if isinstance(item, VStr):
            c = concrete_str(item.t)
            if c is not None:
                return c
        if isinstance(item, VInt):
            t = z3.simplify(item.t)
            if z3.is_int_value(t):
                return t.as_long()
        raise EngineUnsupported("non-constant key")

    def ev_in_genexp(self, st, left, gen: ast.GeneratorExp, negate):
        """x in (f(e) for e in xs)  ==  exists index. f(xs[i]) == x   (skolemised by the registry's quantifier support)."""
        if len(gen.generators) != 1 or gen.generators[0].ifs:
            raise EngineUnsupported("generator in membership test")
        g = gen.generators[0]

        def k(s, vs):
            x, xs = vs
            el, t = self.as_seq(s, xs)
            if t is None:
                return [(s, VBool(z3.BoolVal(negate)))]
            # existential over index: represented with an uninterpreted membership predicate defined pointwise
            pred = self.reg.exists_pred(self, s, el, t, g.target, gen.elt, x)
            return [(s, VBool(z3.Not(pred) if negate else pred))]
        return self.eval_many(st, [left, g.iter], k)

    def ev_Attribute(self, st, e):
        return self.bind(self.eval(st, e.value), lambda s, v: self.getattr(s, v, e.attr, e))

    def getattr(self, st, v, attr, node=None):
        if isinstance(v, VRef):
            c = st.cell(v)
            if isinstance(c, ObjCell):
                if attr in c.fields:
                    return [(st, c.fields[attr])]
                return self.class_attr(st, v, c.cls, attr, node)
            if isinstance(c, (ListCell, DictCell, IterCell)):
                return [(st, VBuiltin(attr, recv=v))]
        if isinstance(v, VRec):
            cls = getattr(v.ty, "cls", None)
            if attr in v.ty.index:
                fty, opt = v.ty.index[attr]
                if opt:
                    raise EngineUnsupported("optional attribute")
                return [(st, self.thaw(from_term(v.ty.get(v.t, attr), fty)))]
            if cls:
                return self.class_attr(st, v, cls, attr, node)
        if isinstance(v, (VStr, VSeq, VTuple)):
            return [(st, VBuiltin(attr, recv=v))]
        if isinstance(v, VClass):
            fi = self.prog.find_method(v.name, attr)
            if fi is not None:
                if fi.is_static:
                    return [(st, VFunc(fi.qualname, fi.node, None, fi.cls))]
                if fi.is_classmethod:
                    return [(st, VFunc(fi.qualname, fi.node, v, fi.cls))]
                return [(st, VFunc(fi.qualname, fi.node, None, fi.cls))]
            ca = self.prog.find_class_attr(v.name, attr)
            if ca is not None:
                return self.reg.class_attr_value(self, st, v.name, attr, ca)
            nested = v.name + "." + attr
            if nested in self.prog.classes:
                return [(st, VClass(nested))]
        if isinstance(v, VPy):
            return [(st, self.reg.py_attr(self, v, attr))]
        if v is VNone:
            self.oblige(st, f"safety[AttributeError:None.{attr}@{getattr(node, 'lineno', 0)}]", z3.BoolVal(False),
                        lineno=getattr(node, 'lineno', 0))
            return []
        raise EngineUnsupported(f"attribute {attr} of {v!r} (line {getattr(node, 'lineno', '?')})")

    def thaw(self, v: Val) -> Val:
        return v

    def class_attr(self, st, recv, cls, attr, node):
        fi = self.prog.find_method(cls, attr)
        if fi is not None:
            if fi.is_property:
                return self.call_function(st, VFunc(fi.qualname, fi.node, recv, fi.cls), [], {}, node)
            if fi.is_static:
                return [(st, VFunc(fi.qualname, fi.node, None, fi.cls))]
            return [(st, VFunc(fi.qualname, fi.node, recv, fi.cls))]
        ca = self.prog.find_class_attr(cls, attr)
        if ca is not None:
            return self.reg.class_attr_value(self, st, cls, attr, ca)
        # attribute missing: a definite AttributeError only if no method of the class ever stores to self.<attr>;
        # otherwise the object's (ghost) view simply does not declare the field -> outside the verifier's reach
        if self.prog.assigns_instance_attr(cls, attr):
            raise EngineUnsupported(f"attribute {attr} of {cls} is not declared in the object's view (line {getattr(node, 'lineno', '?')})")
        self.oblige(st, f"safety[AttributeError:{cls}.{attr}@{getattr(node, 'lineno', 0)}]", z3.BoolVal(False),
                    lineno=getattr(node, 'lineno', 0))
        return []

    def ev_Subscript(self, st, e):
        if isinstance(e.slice, ast.Slice):
            parts = [e.value] + [x for x in (e.slice.lower, e.slice.upper) if x is not None]
            if e.slice.step is not None:
                raise EngineUnsupported("slice step")

            def k(s, vs):
                base = vs[0]
                i = 1
                lo = hi = None
                if e.slice.lower is not None:
                    lo = vs[i]
                    i += 1
                if e.slice.upper is not None:
                    hi = vs[i]
                return [(s, self.slice(s, base, lo, hi))]
            return self.eval_many(st, parts, k)
        return self.eval_many(st, [e.value, e.slice], lambda s, vs: self.index(s, vs[0], vs[1], e))

    def norm_index(self, n, i):
        """python slice bound normalisation."""
        return z3.If(i < 0, z3.If(n + i < 0, 0, n + i), z3.If(i > n, n, i))

    def slice(self, st, base, lo, hi) -> Val:
        if isinstance(base, VTuple) or (isinstance(base, VRef) and isinstance(st.cell(base), ListCell)
                                       and st.cell(base).elem is None):
            items = base.items if isinstance(base, VTuple) else st.cell(base).items
            def cv(x, d):
                if x is None:
                    return d
                t = z3.simplify(self.as_int(x))
                if not z3.is_int_value(t):
                    raise EngineUnsupported("symbolic slice of python-level list")
                return t.as_long()
            r = items[cv(lo, None):cv(hi, None)]
            return VTuple(r) if isinstance(base, VTuple) else st.alloc(ListCell(None, None, list(r)))
        el, t = self.as_seq(st, base)
        n = z3.Length(t)
        a = ival(0) if lo is None else self.norm_index(n, self.as_int(lo))
        b = n if hi is None else self.norm_index(n, self.as_int(hi))
        a, b = z3.simplify(a), z3.simplify(b)
        # with a, b normalised into [0, n]: seq.extract(t, a, b - a) is empty whenever b <= a (z3/SMT-LIB semantics)
        r = z3.SubSeq(t, a, z3.simplify(b - a))
        if isinstance(base, VStr):
            return VStr(r)
        if isinstance(base, VSeq):
            return VSeq(el, r)
        return st.alloc(ListCell(el, r))

    def index(self, st, base, idx, node=None):
        ln = getattr(node, "lineno", 0)
        if isinstance(base, VMap):
            k = to_term(self.freeze(st, idx, base.ty.keyt), base.ty.keyt)
            return [(st, from_term(z3.Select(base.t, k), base.ty.val))]
        # dict / record access
        if isinstance(base, VRec):
            k = self.concrete_key(idx)
            if k not in base.ty.index:
                self.oblige(st, f"safety[KeyError:{k}@{ln}]", z3.BoolVal(False), lineno=ln)
                return []
            fty, opt = base.ty.index[k]
            if opt:
                self.oblige(st, f"safety[KeyError:{k}@{ln}]", base.ty.has(base.t, k), lineno=ln)
            return [(st, from_term(base.ty.get(base.t, k), fty))]
        if isinstance(base, VRef):
            c = st.cell(base)
            if isinstance(c, DictCell):
                k = self.concrete_key(idx)
                if k not in c.items:
                    self.oblige(st, f"safety[KeyError:{k}@{ln}]", z3.BoolVal(False), lineno=ln)
                    return []
                p = c.present.get(k, True)
                if p is not True:
                    self.oblige(st, f"safety[KeyError:{k}@{ln}]", p, lineno=ln)
                return [(st, c.items[k])]
            if isinstance(c, ListCell) and c.elem is None:
                t = z3.simplify(self.as_int(idx))
                if not z3.is_int_value(t):
                    raise EngineUnsupported("symbolic index into python-level list")
                i = t.as_long()
                if not (-len(c.items) <= i < len(c.items)):
                    self.oblige(st, f"safety[IndexError@{ln}]", z3.BoolVal(False), lineno=ln)
                    return []
                return [(st, c.items[i])]
        if isinstance(base, VTuple):
            t = z3.simplify(self.as_int(idx))
            if not z3.is_int_value(t):
                raise EngineUnsupported("symbolic index into tuple")
            i = t.as_long()
            if not (-len(base.items) <= i < len(base.items)):
                self.oblige(st, f"safety[IndexError@{ln}]", z3.BoolVal(False), lineno=ln)
                return []
            return [(st, base.items[i])]
        el, t = self.as_seq(st, base)
        if t is None:
            self.oblige(st, f"safety[IndexError@{ln}]", z3.BoolVal(False), lineno=ln)
            return []
        n = z3.Length(t)
        i = z3.simplify(self.as_int(idx))
        self.oblige(st, f"safety[IndexError@{ln}]", z3.And(i >= -n, i < n), lineno=ln)
        j = z3.simplify(z3.If(i < 0, n + i, i))
        elem = z3.simplify(t[j]) if z3.is_int_value(j) else t[j]
        if z3.is_app(elem) and elem.decl().name() in ("seq.nth_i", "seq.nth_u", "if"):
            elem = t[j]
        if isinstance(base, VStr):
            return [(st, VStr(z3.Unit(elem)))]
        return [(st, from_term(elem, el))]

    def ev_Call(self, st, e):
        return self.reg.eval_call(self, st, e)

    def ev_Lambda(self, st, e):
        return [(st, VFunc("<lambda>", e, None, None))]

    def ev_ListComp(self, st, e):
        return self.reg.eval_comprehension(self, st, e, kind="list")

    def ev_GeneratorExp(self, st, e):
        return self.reg.eval_comprehension(self, st, e, kind="gen")

    def ev_DictComp(self, st, e):
        return self.reg.eval_dictcomp(self, st, e)

    # ------------------------------------------------------------------ statements
    # exec returns list[(State, Outcome)]
    def exec_block(self, st: State, stmts: list) -> list:
        results = [(st, Outcome(Outcome.NORMAL))]
        for s in stmts:
            nxt = []
            for state, oc in results:
                if oc.kind != Outcome.NORMAL:
                    nxt.append((state, oc))
                else:
                    nxt.extend(self.exec(state, s))
            results = nxt
            if len(results) > self.max_paths:
                raise EngineUnsupported(f"too many paths ({len(results)})")
        return results

    def exec(self, st: State, s: ast.stmt) -> list:
        m = getattr(self, "ex_" + type(s).__name__, None)
        if m is None:
            raise EngineUnsupported(f"statement {type(s).__name__} at line {s.lineno}")
        return m(st, s)

    def _lift(self, results, fn):
        """results: list[(State, Val|Raised)] -> list[(State, Outcome)]"""
        out = []
        for st, v in results:
            if isinstance(v, Raised):
                out.append((st, Outcome(Outcome.RAISE, v.exc)))
            else:
                out.extend(fn(st, v))
        return out

    def ex_Pass(self, st, s):
        return [(st, Outcome(Outcome.NORMAL))]

    def ex_Expr(self, st, s):
        if isinstance(s.value, ast.Constant):
            return [(st, Outcome(Outcome.NORMAL))]
        if isinstance(s.value, ast.Attribute) and s.value.attr == "detach":
            # `token.detach` expression statement: an attribute read of a method, no call (DESIGN 3.2)
            return [(st, Outcome(Outcome.NORMAL))]
        if isinstance(s.value, ast.Yield):
            return self._lift(self.eval(st, s.value.value), lambda s2, v: self.do_yield(s2, v))
        if isinstance(s.value, ast.YieldFrom):
            return self._lift(self.eval(st, s.value.value), lambda s2, v: self.do_yield_from(s2, v))
        return self._lift(self.eval(st, s.value), lambda s2, v: [(s2, Outcome(Outcome.NORMAL))])

    def do_yield(self, st, v):
        out = st.env.get("_yielded")
        if out is None:
            raise EngineUnsupported("yield outside generator context")
        self.list_append(st, out, v)
        return [(st, Outcome(Outcome.NORMAL))]

    def do_yield_from(self, st, v):
        out = st.env.get("_yielded")
        if out is None:
            raise EngineUnsupported("yield from outside generator context")
        self.list_extend(st, out, v)
        return [(st, Outcome(Outcome.NORMAL))]

    def ex_With(self, st, s):
        # only `with open(...) as f:` / `with io.StringIO(..) as f:` -- the stream object is its own context manager
        # and closing it has no effect the model observes
        if len(s.items) != 1:
            raise EngineUnsupported(f"with statement with several items at line {s.lineno}")
        it = s.items[0]

        def k(s2, v):
            if not (isinstance(v, VRef) and isinstance(s2.cell(v), ObjCell) and s2.cell(v).cls == "TextIO"):
                raise EngineUnsupported(f"with statement over a non-stream object at line {s.lineno}")
            if it.optional_vars is not None:
                if not isinstance(it.optional_vars, ast.Name):
                    raise EngineUnsupported("with ... as <pattern>")
                s2.env[it.optional_vars.id] = v
            return self.exec_block(s2, s.body)
        return self._lift(self.eval(st, it.context_expr), k)

    def ex_Return(self, st, s):
        if s.value is None:
            return [(st, Outcome(Outcome.RETURN, VNone))]
        return self._lift(self.eval(st, s.value), lambda s2, v: [(s2, Outcome(Outcome.RETURN, v))])

    def ex_Break(self, st, s):
        return [(st, Outcome(Outcome.BREAK))]

    def ex_Continue(self, st, s):
        return [(st, Outcome(Outcome.CONTINUE))]

    def ex_Assert(self, st, s):
        def k(s2, v):
            self.oblige(s2, f"safety[AssertionError@{s.lineno}]", self.truth(s2, v), lineno=s.lineno)
            return [(s2, Outcome(Outcome.NORMAL))]
        return self._lift(self.eval(st, s.test), k)

    def ex_Raise(self, st, s):
        if s.exc is None:
            raise EngineUnsupported("bare raise")
        return self._lift(self.eval(st, s.exc), lambda s2, v: [(s2, Outcome(Outcome.RAISE, v))])

    def ex_If(self, st, s):
        narrow = self.none_test(st, s.test)

        def k(s2, c):
            out = []
            for s3, b in self.branch(s2, self.truth(s2, c)):
                if narrow is not None:
                    name, none_when_true = narrow
                    v = s3.env.get(name)
                    if isinstance(v, VOpt):
                        s3.env[name] = self.narrow_value(v, none_when_true, b)
                out.extend(self.exec_block(s3, s.body if b else s.orelse))
            return out
        return self._lift(self.eval(st, s.test), k)

    def none_test(self, st, test):
        """`x is None` / `x is not None` on a local holding an optional value: (name, True if the test being true means None)"""
        if isinstance(test, ast.Compare) and len(test.ops) == 1 and isinstance(test.left, ast.Name) \
                and isinstance(test.comparators[0], ast.Constant) and test.comparators[0].value is None \
                and isinstance(st.env.get(test.left.id), VOpt):
            if isinstance(test.ops[0], ast.Is):
                return (test.left.id, True)
            if isinstance(test.ops[0], ast.IsNot):
                return (test.left.id, False)
        # truthiness of an optional: `x` true => not None;  `not x` false => not None (the other side stays optional)
        if isinstance(test, ast.Name) and isinstance(st.env.get(test.id), VOpt):
            return (test.id, "some_if_true")
        if isinstance(test, ast.UnaryOp) and isinstance(test.op, ast.Not) and isinstance(test.operand, ast.Name) \
                and isinstance(st.env.get(test.operand.id), VOpt):
            return (test.operand.id, "some_if_false")
        return None

    def narrow_value(self, v, mode, b):
        """value of an optional local in the branch where the test evaluated to b"""
        if mode is True or mode is False:
            return VNone if (b == mode) else from_term(v.ty.val(v.t), v.ty.elem)
        if (mode == "some_if_true" and b) or (mode == "some_if_false" and not b):
            return from_term(v.ty.val(v.t), v.ty.elem)
        return v

    def ex_AnnAssign(self, st, s):
        if s.value is None:
            return [(st, Outcome(Outcome.NORMAL))]
        hint = self.reg.type_from_annotation(s.annotation, self.prog.funcs[self.func].module if self.func in self.prog.funcs else None)

        def k(s2, v):
            if hint is not None and isinstance(v, VRef):
                c = s2.cell(v)
                if isinstance(c, DictCell) and isinstance(hint, TRec) and c.ty is None:
                    s2.set_cell(v, DictCell(c.items, c.present, hint, c.owner))
                    for k2, fty, _o in hint.fields:
                        iv = c.items.get(k2)
                        if isinstance(fty, TSeq) and isinstance(iv, VRef) and isinstance(s2.cell(iv), ListCell):
                            lc2 = s2.cell(iv)
                            if lc2.elem is None and not lc2.items:
                                s2.set_cell(iv, ListCell(fty.elem, z3.Empty(fty.sort()), None, lc2.owner))
                if isinstance(c, ListCell) and c.elem is None and not c.items and isinstance(hint, TSeq):
                    s2.set_cell(v, ListCell(hint.elem, z3.Empty(hint.sort()), None, c.owner))
            return self.assign(s2, s.target, v)
        return self._lift(self.eval(st, s.value), k)

    def ex_Assign(self, st, s):
        if len(s.targets) != 1:
            raise EngineUnsupported("multiple assignment targets")
        return self._lift(self.eval(st, s.value), lambda s2, v: self.assign(s2, s.targets[0], v))

    def assign(self, st, target, v) -> list:
        if isinstance(target, ast.Name):
            st.env[target.id] = v
            return [(st, Outcome(Outcome.NORMAL))]
        if isinstance(target, ast.Tuple):
            if isinstance(v, VTuple) and len(v.items) == len(target.elts):
                for t, x in zip(target.elts, v.items):
                    self.assign(st, t, x)
                return [(st, Outcome(Outcome.NORMAL))]
            raise EngineUnsupported("tuple unpacking of non-tuple")
        if isinstance(target, ast.Attribute):
            def k(s2, obj):
                self.setattr(s2, obj, target.attr, v, target)
                return [(s2, Outcome(Outcome.NORMAL))]
            return self._lift(self.eval(st, target.value), k)
        if isinstance(target, ast.Subscript):
            def k(s2, vs):
                self.setitem(s2, vs[0], vs[1], v, target)
                return [(s2, Outcome(Outcome.NORMAL))]
            return self._lift(self.eval_many(st, [target.value, target.slice], lambda s2, vs: [(s2, vs)]),
                              lambda s2, vs: k(s2, vs))
        raise EngineUnsupported("assignment target")

    def setattr(self, st, obj, attr, v, node=None):
        if isinstance(obj, VRef) and isinstance(st.cell(obj), ObjCell):
            c = st.cell(obj)
            f = dict(c.fields)
            f[attr] = v
            st.set_cell(obj, ObjCell(c.cls, f, c.owner, c.view))
            return
        # write to an immutable record view = write into caller-owned state that the model treats as a value
        self.oblige(st, f"frame[store .{attr} on value object@{getattr(node, 'lineno', 0)}]", z3.BoolVal(False),
                    kind="frame", serves=["C15"], lineno=getattr(node, 'lineno', 0))

    def setitem(self, st, base, idx, v, node=None):
        ln = getattr(node, "lineno", 0)
        if isinstance(base, VRef):
            c = st.cell(base)
            if isinstance(c, DictCell):
                k = self.concrete_key(idx)
                items, present = dict(c.items), dict(c.present)
                items[k] = v
                present[k] = True
                st.set_cell(base, DictCell(items, present, c.ty, c.owner))
                return
            if isinstance(c, ListCell):
                raise EngineUnsupported("list item assignment")
        self.oblige(st, f"frame[item store on value@{ln}]", z3.BoolVal(False), kind="frame", serves=["C15"], lineno=ln)

    def ex_AugAssign(self, st, s):
        if isinstance(s.target, ast.Name):
            def k(s2, v):
                cur = s2.env.get(s.target.id)
                if cur is None:
                    raise EngineUnsupported("augassign to unbound")
                if isinstance(s.op, ast.Add) and self.is_listlike(s2, cur):
                    # list += iterable : in-place extend (aliases see it)
                    self.list_extend(s2, cur, v, s)
                    return [(s2, Outcome(Outcome.NORMAL))]
                return self._lift(self.binop(s2, s.op, cur, v, s), lambda s3, r: self.assign(s3, s.target, r))
            return self._lift(self.eval(st, s.value), k)
        if isinstance(s.target, ast.Attribute):
            def k(s2, vs):
                obj, v = vs
                return self._lift(self.getattr(s2, obj, s.target.attr, s), lambda s3, cur: self._aug_attr(s3, obj, s, cur, v))
            return self._lift(self.eval_many(st, [s.target.value, s.value], lambda s2, vs: [(s2, vs)]), k)
        raise EngineUnsupported("augassign target")

    def _aug_attr(self, st, obj, s, cur, v):
        if isinstance(s.op, ast.Add) and self.is_listlike(st, cur):
            self.list_extend(st, cur, v, s)
            return [(st, Outcome(Outcome.NORMAL))]
        def k(s3, r):
            self.setattr(s3, obj, s.target.attr, r, s)
            return [(s3, Outcome(Outcome.NORMAL))]
        return self._lift(self.binop(st, s.op, cur, v, s), k)

    # list mutation ---------------------------------------------------------------------------
    def list_append(self, st, lst, v, node=None):
        if not (isinstance(lst, VRef) and isinstance(st.cell(lst), ListCell)):
            self.oblige(st, f"frame[append on value list@{getattr(node, 'lineno', 0)}]", z3.BoolVal(False),
                        kind="frame", serves=["C15"], lineno=getattr(node, 'lineno', 0))
            return
        c = st.cell(lst)
        if c.elem is None:
            st.set_cell(lst, ListCell(None, None, list(c.items) + [v], c.owner))
        else:
            x = self.freeze(st, v, c.elem)
            st.set_cell(lst, ListCell(c.elem, z3.Concat(c.seq, z3.Unit(to_term(x, c.elem))), None, c.owner))

    def list_extend(self, st, lst, v, node=None):
        if not (isinstance(lst, VRef) and isinstance(st.cell(lst), ListCell)):
            self.oblige(st, f"frame[in-place extend of value list@{getattr(node, 'lineno', 0)}]", z3.BoolVal(False),
                        kind="frame", serves=["C15"], lineno=getattr(node, 'lineno', 0))
            return
        c = st.cell(lst)
        if isinstance(v, VRef) and isinstance(st.cell(v), ListCell) and st.cell(v).elem is None and c.elem is None:
            st.set_cell(lst, ListCell(None, None, list(c.items) + list(st.cell(v).items), c.owner))
            return
        if isinstance(v, VTuple) and c.elem is None:
            st.set_cell(lst, ListCell(None, None, list(c.items) + list(v.items), c.owner))
            return
        el, t = self.as_seq(st, v)
        if t is None:
            return
        if c.elem is None:
            if c.items:
                fr = self.freeze(st, lst, TSeq(el))
                st.set_cell(lst, ListCell(el, z3.Concat(fr.t, t), None, c.owner))
            else:
                st.set_cell(lst, ListCell(el, t, None, c.owner))
        else:
            if c.elem != el:
                raise EngineUnsupported(f"extend list[{c.elem}] with {el}")
            st.set_cell(lst, ListCell(c.elem, z3.Concat(c.seq, t), None, c.owner))

    # loops -----------------------------------------------------------------------------------
    def ex_While(self, st, s):
        return self.reg.exec_loop(self, st, s)

    def ex_For(self, st, s):
        return self.reg.exec_loop(self, st, s)

    def ex_Try(self, st, s):
        if s.finalbody or s.orelse:
            raise EngineUnsupported("try/finally/else")
        out = []
        for st2, oc in self.exec_block(st, s.body):
            if oc.kind != Outcome.RAISE:
                out.append((st2, oc))
                continue
            exc = oc.value
            cls = self.exc_class(st2, exc)
            handled = False
            for h in s.handlers:
                names = self.handler_names(h)
                if any(self.prog.is_subclass(cls, n) or n in ("Exception", "BaseException") for n in names):
                    s3 = st2
                    if h.name:
                        s3.env[h.name] = exc
                    out.extend(self.exec_block(s3, h.body))
                    handled = True
                    break
            if not handled:
                out.append((st2, oc))
        return out

    def handler_names(self, h):
        if h.type is None:
            return ["BaseException"]
        if isinstance(h.type, ast.Tuple):
            return [ast.unparse(x) for x in h.type.elts]
        return [ast.unparse(h.type)]

    def exc_class(self, st, exc) -> str:
        if isinstance(exc, VRef) and isinstance(st.cell(exc), ObjCell):
            return st.cell(exc).cls
        raise EngineUnsupported(f"raised non-object {exc!r}")

    # calls -----------------------------------------------------------------------------------
    def call_function(self, st, f: VFunc, args, kwargs, node=None):
        return self.reg.call_function(self, st, f, args, kwargs, node)
