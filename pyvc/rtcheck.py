"""Run-time reading of the sidecar contracts (bounded stand-ins and replay).  Runs under the repository's
interpreter (/venv/bin/python) against the real code of $VERIF_REPO (default /repo).

  rtcheck.py --function <qualname> [--bound N] [--max-cases M] [--seeds file.json] [--only-serves Cxx]

Output: one JSON object {function, cases, skipped, failures:[{args, clause, detail}], exhausted}.
Never counted as proof: it is the executable contract evaluated on the real function over a stated finite domain.
"""
from __future__ import annotations

import argparse
import ast
import copy
import importlib
import inspect
import json
import os
import sys
import time
import types

VERIF = os.path.dirname(os.path.dirname(os.path.abspath(__file__)))
REPO = os.environ.get("VERIF_REPO", "/repo")
sys.path.insert(0, VERIF)
sys.path.insert(0, os.path.join(REPO, "python"))


class RtClause:
    def __init__(self, name, fn, serves, pre_fns=None):
        self.name, self.fn, self.serves, self.pre_fns = name, fn, list(serves), pre_fns or []


class WithOld:
    def __init__(self, fn, pre_fns):
        self.fn, self.pre_fns = fn, pre_fns


class RtContract:
    def __init__(self, qualname, kw):
        self.qualname = qualname
        self.args = kw.get("args", {})
        self.requires = [self._cl(c, i) for i, c in enumerate(kw.get("requires", []) or [])]
        self.ensures = [self._cl(c, i) for i, c in enumerate(kw.get("ensures", []) or [])]
        self.raises = kw.get("raises", []) or []
        self.modifies = kw.get("modifies", []) or []
        self.gen = kw.get("gen")
        self.generator = kw.get("generator", False)
        self.serves = kw.get("serves", [])
        self.result_is = kw.get("result_is")
        self.trusted = kw.get("trusted", False)
        self.abstract = kw.get("abstract", False)

    @staticmethod
    def _cl(c, i):
        if isinstance(c, RtClause):
            return c
        if isinstance(c, WithOld):
            return RtClause(f"c{i}", c.fn, [], c.pre_fns)
        return RtClause(f"c{i}", c, [])


REG: dict[str, RtContract] = {}


def _dsl_namespace():
    ns = {}
    exec("from pyvc.specrt import *", ns)

    def clause(name, fn, serves=()):
        if isinstance(fn, WithOld):
            return RtClause(name, fn.fn, serves, fn.pre_fns)
        return RtClause(name, fn, serves)

    def raises(exc, when=None, ensures=(), serves=(), only_if=None):
        return {"exc": exc, "when": when, "only_if": only_if, "ensures": [RtContract._cl(c, i) for i, c in enumerate(ensures)],
                "serves": list(serves)}

    def contract(qualname, **kw):
        REG[qualname] = RtContract(qualname, kw)

    ns.update(dict(clause=clause, raises=raises, contract=contract, klass=lambda *a, **k: None,
                   lemma=lambda *a, **k: None, contract_family=lambda *a, **k: None, record_override=lambda *a, **k: None, record=lambda *a, **k: None, loop=lambda **k: k, __with_old__=WithOld,
                   MutList=lambda x: ("MutList", x), MutDict=lambda x: ("MutDict", x), Opt=lambda x: ("Opt", x),
                   Val=lambda x: ("Val", x), MapOf=lambda k, v: ("MapOf", k, v), Raw=lambda x: ("Raw", x), PyTuple=lambda *x: ("PyTuple",) + x, Fn="Fn"))
    return ns


class OldRewriter(ast.NodeTransformer):
    """lambda ps: ... old(e) ...   ==>   __with_old__(lambda ps, __old: ... __old[i] ..., [lambda ps': e, ...])"""

    def visit_Lambda(self, node):
        self.generic_visit(node)
        olds = []

        class Repl(ast.NodeTransformer):
            def visit_Call(self, n):
                self.generic_visit(n)
                if isinstance(n.func, ast.Name) and n.func.id == "old" and len(n.args) == 1:
                    olds.append(n.args[0])
                    return ast.Subscript(value=ast.Name(id="__old", ctx=ast.Load()),
                                         slice=ast.Constant(len(olds) - 1), ctx=ast.Load())
                return n
        body = Repl().visit(node.body)
        if not olds:
            return node
        params = [a.arg for a in node.args.args]
        pre_params = [p for p in params if p not in ("result", "exc")]
        new_lambda = ast.Lambda(args=ast.arguments(posonlyargs=[], args=[ast.arg(p) for p in params + ["__old"]],
                                                   kwonlyargs=[], kw_defaults=[], defaults=[]), body=body)
        pres = [ast.Lambda(args=ast.arguments(posonlyargs=[], args=[ast.arg(p) for p in pre_params], kwonlyargs=[],
                                              kw_defaults=[], defaults=[]), body=e) for e in olds]
        return ast.Call(func=ast.Name(id="__with_old__", ctx=ast.Load()),
                        args=[new_lambda, ast.List(elts=pres, ctx=ast.Load())], keywords=[])


def load_sidecars():
    ns = _dsl_namespace()
    cdir = os.path.join(VERIF, "contracts")
    sdir = os.path.join(cdir, "specs")
    for d in (sdir, cdir):
        for fn in sorted(os.listdir(d)):
            if not fn.endswith(".py") or fn.startswith("_"):
                continue
            path = os.path.join(d, fn)
            with open(path, encoding="utf8") as f:
                tree = ast.parse(f.read(), filename=path)
            tree.body = [s for s in tree.body if not (isinstance(s, ast.ImportFrom) and s.module in ("pyvc.dsl", "pyvc.specrt"))]
            tree = ast.fix_missing_locations(OldRewriter().visit(tree))
            exec(compile(tree, path, "exec"), ns)
    return ns


# ---------------------------------------------------------------------------------------------
def resolve(qualname):
    parts = qualname.split(".")
    for i in range(len(parts) - 1, 0, -1):
        try:
            mod = importlib.import_module(".".join(parts[:i]))
        except ImportError:
            continue
        obj = mod
        owner = None
        for p in parts[i:]:
            owner = obj
            obj = inspect.getattr_static(obj, p) if inspect.isclass(obj) else getattr(obj, p)
        return owner, parts[-1], obj
    raise ImportError(qualname)


def snapshot(x, depth=0, seen=None):
    """Structural snapshot for frame comparison."""
    if seen is None:
        seen = {}
    if depth > 12:
        return "..."
    if isinstance(x, (str, int, float, bool, type(None))):
        return x
    if id(x) in seen:
        return ("ref", seen[id(x)])
    seen[id(x)] = len(seen)
    if isinstance(x, (list, tuple)) or type(x).__name__ == "deque":
        return [type(x).__name__] + [snapshot(i, depth + 1, seen) for i in x]
    if isinstance(x, dict):
        return {"dict": [(snapshot(k, depth + 1, seen), snapshot(v, depth + 1, seen)) for k, v in x.items()]}
    if isinstance(x, (types.FunctionType, types.MethodType, type)) or inspect.ismodule(x):
        return ("callable", getattr(x, "__qualname__", str(x)))
    if hasattr(x, "__dict__"):
        return {"obj": type(x).__name__, "fields": {k: snapshot(v, depth + 1, seen) for k, v in sorted(vars(x).items())}}
    return ("opaque", type(x).__name__)


def call_lambda(fn, env, extra=None):
    names = list(inspect.signature(fn).parameters)
    kw = {}
    for n in names:
        if n == "__old":
            kw[n] = extra
        elif n in env:
            kw[n] = env[n]
        else:
            raise KeyError(f"contract lambda needs {n}")
    return fn(**kw)


def check_one(c: RtContract, args: tuple, only_serves=None):
    """Run the real function on args; returns (status, failures)   status: ok | skipped"""
    owner, name, obj = resolve(c.qualname.split("@")[0].split("#")[0])
    argnames = list(c.args) if c.args else None
    is_init = name == "__init__"
    is_static = isinstance(obj, staticmethod)
    is_prop = isinstance(obj, property)
    fn = obj.__func__ if isinstance(obj, (staticmethod, classmethod)) else (obj.fget if is_prop else obj)
    params = list(inspect.signature(fn).parameters)
    if is_init:
        self_obj = owner.__new__(owner)
        args = (self_obj,) + tuple(args)
    env = dict(zip(params, args))
    # defaults
    for p, spec in inspect.signature(fn).parameters.items():
        if p not in env and spec.default is not inspect.Parameter.empty:
            env[p] = spec.default
    failures = []
    for r in c.requires:
        try:
            if not call_lambda(r.fn, env):
                return "skipped", []
        except Exception as e:
            return "skipped", []
    whens = []
    for rc in c.raises:
        whens.append(call_lambda(rc["when"], env) if rc["when"] is not None else None)
    pre = {}
    for cl in c.ensures + [x for rc in c.raises for x in rc["ensures"]]:
        if cl.pre_fns:
            pre[id(cl)] = [copy.deepcopy(call_lambda(p, env)) for p in cl.pre_fns]
    frame_roots = {}
    mod_roots = {m.split(".")[0] for m in c.modifies}
    for p, v in env.items():
        if p not in mod_roots:
            frame_roots[p] = snapshot(v)
        else:
            # partial: compare the fields that are not listed
            listed = {m.split(".")[1] for m in c.modifies if m.startswith(p + ".") and len(m.split(".")) >= 2}
            if "*" not in listed and hasattr(v, "__dict__") and (p + ".*") not in c.modifies and p not in c.modifies:
                frame_roots[p] = {k: snapshot(x) for k, x in vars(v).items() if k not in listed}
    exc = None
    result = None
    try:
        if is_prop:
            result = fn(env[params[0]])
        else:
            result = fn(*[env[p] for p in params])
        if c.generator or inspect.isgenerator(result):
            result = list(result)
    except Exception as e:  # the contract decides which exceptions are allowed
        exc = e

    def serves_ok(cl):
        return only_serves is None or not cl.serves or (set(cl.serves) & set(only_serves))

    if exc is None:
        renv = dict(env)
        renv["result"] = result
        for w, rc in zip(whens, c.raises):
            if w:
                failures.append({"clause": "must-raise:" + rc["exc"], "detail": "returned normally"})
        if c.result_is is not None:
            try:
                want = call_lambda(c.result_is, env)
                if want != result:
                    failures.append({"clause": "result", "detail": f"result {result!r:.200} differs from the specified {want!r:.200}"})
            except Exception as e:
                failures.append({"clause": "result", "detail": f"result specification raised {type(e).__name__}: {e}"})
        for cl in c.ensures:
            if not serves_ok(cl):
                continue
            try:
                ok = call_lambda(cl.fn, renv, pre.get(id(cl)))
            except Exception as e:
                ok = False
                failures.append({"clause": cl.name, "detail": f"clause raised {type(e).__name__}: {e}"})
                continue
            if not ok:
                failures.append({"clause": cl.name, "detail": "postcondition false", "result": repr(result)[:300]})
    else:
        matching = [(w, rc) for w, rc in zip(whens, c.raises) if rc["exc"] in [k.__name__ for k in type(exc).__mro__]]
        if not matching:
            failures.append({"clause": "undeclared-exception", "detail": f"{type(exc).__name__}: {exc}"})
        else:
            w, rc = matching[0]
            if w is False:
                failures.append({"clause": f"raises:{rc['exc']}:when", "detail": f"raised although the condition is false: {exc}"})
            xenv = dict(env)
            xenv["exc"] = exc
            for cl in rc["ensures"]:
                if not serves_ok(cl):
                    continue
                try:
                    ok = call_lambda(cl.fn, xenv, pre.get(id(cl)))
                except Exception as e:
                    ok = False
                if not ok:
                    failures.append({"clause": f"raises:{rc['exc']}:{cl.name}", "detail": "exceptional postcondition false"})
    for p, snap in frame_roots.items():
        v = env[p]
        now = snapshot(v) if not isinstance(snap, dict) or "obj" in snap or "dict" in snap else \
            {k: snapshot(x) for k, x in vars(v).items() if k in snap}
        if isinstance(snap, dict) and "obj" not in snap and "dict" not in snap:
            now = {k: now.get(k) for k in snap}
        if now != snap:
            failures.append({"clause": f"frame[{p}]", "detail": "argument modified although not listed in modifies"})
    return "ok", failures


def show(a):
    if hasattr(a, "__dict__") and not isinstance(a, type):
        return {"obj": type(a).__name__, "fields": {k: show(v) for k, v in list(vars(a).items())[:12]}}
    if isinstance(a, (list, tuple)):
        return [show(x) for x in a[:20]]
    if isinstance(a, dict):
        return {str(k): show(v) for k, v in list(a.items())[:20]}
    if isinstance(a, (str, int, bool, float, type(None))):
        return a
    return repr(a)[:100]


def run(function, bound, max_cases, seeds, only_serves, max_fail=3, time_limit=None):
    load_sidecars()
    c = REG.get(function)
    out = {"function": function, "bound": bound, "cases": 0, "skipped": 0, "failures": [], "exhausted": True}
    if c is None or c.gen is None:
        out["error"] = "no input generator declared (gen=...)"
        return out
    params = inspect.signature(c.gen).parameters
    it = c.gen(bound, seeds) if len(params) >= 2 else c.gen(bound)
    t0 = time.time()
    for args in it:
        if not isinstance(args, tuple):
            args = (args,)
        if max_cases and out["cases"] >= max_cases:
            out["exhausted"] = False
            break
        if time_limit and time.time() - t0 > time_limit:
            out["exhausted"] = False
            break
        shown = show(list(args))
        status, fails = check_one(c, args, only_serves)
        if status == "skipped":
            out["skipped"] += 1
            continue
        out["cases"] += 1
        for f in fails:
            f["args"] = shown
            out["failures"].append(f)
        if len(out["failures"]) >= max_fail:
            out["exhausted"] = False
            break
    out["wall_s"] = round(time.time() - t0, 3)
    return out


if __name__ == "__main__":
    ap = argparse.ArgumentParser()
    ap.add_argument("--function", required=True)
    ap.add_argument("--bound", type=int, default=3)
    ap.add_argument("--max-cases", type=int, default=0)
    ap.add_argument("--seeds")
    ap.add_argument("--only-serves")
    ap.add_argument("--time-limit", type=float, default=None)
    a = ap.parse_args()
    seeds = []
    if a.seeds:
        with open(a.seeds) as f:
            seeds = json.load(f)
    r = run(a.function, a.bound, a.max_cases, seeds, a.only_serves.split(",") if a.only_serves else None,
            time_limit=a.time_limit)
    print(json.dumps(r, ensure_ascii=False))
