"""Acceptance-corpus comparison (finite given set, F obligations).

Runs under the repo interpreter (/venv/bin/python) with cwd=/repo/python so that
uris equal the ones recorded in testdata (../testdata/good/x.feature).
Usage: corpus.py [tokens|ast|pickles|errors|source|all]  -> JSON on stdout
"""
import glob, json, os, sys

REPO = os.environ.get("VERIF_REPO", "/repo")


def _norm(o):
    return json.loads(json.dumps(o))


def run(kinds):
    os.chdir(os.path.join(REPO, "python"))
    sys.path.insert(0, os.getcwd())
    from gherkin.stream.gherkin_events import GherkinEvents
    from gherkin.stream.source_events import SourceEvents
    from gherkin.token_scanner import TokenScanner
    from gherkin.token_formatter_builder import TokenFormatterBuilder
    from gherkin.parser import Parser

    res = {"files": 0, "compared": 0, "mismatches": []}

    def events(path, src, ast, pick):
        ge = GherkinEvents(GherkinEvents.Options(print_source=src, print_ast=ast, print_pickles=pick))
        out = []
        for se in SourceEvents([path]).enum():
            for ev in ge.enum(se):
                out.append(_norm(ev))
        return out

    def expect(path):
        with open(path, encoding="utf8") as f:
            return [json.loads(l) for l in f if l.strip()]

    good = sorted(glob.glob("../testdata/good/*.feature"))
    bad = sorted(glob.glob("../testdata/bad/*.feature"))
    for f in good:
        res["files"] += 1
        if "tokens" in kinds:
            got = Parser(TokenFormatterBuilder()).parse(TokenScanner(f)) + "\n"
            want = open(f + ".tokens", encoding="utf8", newline="").read()
            res["compared"] += 1
            if got != want:
                res["mismatches"].append({"file": f, "kind": "tokens"})
        for kind, flags in (("source", (True, False, False)), ("ast", (False, True, False)), ("pickles", (False, False, True))):
            if kind in kinds:
                got = events(f, *flags)
                want = expect(f + "." + kind + ".ndjson")
                res["compared"] += 1
                if got != want:
                    res["mismatches"].append({"file": f, "kind": kind})
    for f in bad:
        res["files"] += 1
        if "errors" in kinds:
            got = events(f, False, True, True)
            want = expect(f + ".errors.ndjson")
            res["compared"] += 1
            if got != want:
                res["mismatches"].append({"file": f, "kind": "errors", "got": got[:3], "want": want[:3]})
    return res


if __name__ == "__main__":
    k = sys.argv[1] if len(sys.argv) > 1 else "all"
    kinds = {"tokens", "ast", "pickles", "errors", "source"} if k == "all" else set(k.split(","))
    print(json.dumps(run(kinds)))
