"""Replay the witness of a known finding on the real code.  exit 1: the defect reproduces; exit 0: it does not.
Run with the repository's interpreter:  VERIF_REPO=/repo /venv/bin/python pyvc/replay_known.py '<entry json>'"""
import json
import os
import sys

REPO = os.environ.get("VERIF_REPO", "/repo")
sys.path.insert(0, os.path.join(REPO, "python"))


def source_text_is_read(text):
    """C01/D5: Parser.parse(text) must treat `text` as the source text: return a document or raise the library's
    parser error -- and the scanner must read exactly the lines of `text`."""
    from gherkin.parser import Parser
    from gherkin.errors import ParserError
    from gherkin.token_scanner import TokenScanner
    try:
        sc = TokenScanner(text)
        got = []
        while True:
            t = sc.read()
            if t.eof():
                break
            got.append(t.line._line_text)
        if "".join(got) != text:
            return f"scanner read {got!r} instead of the text {text!r}"
        Parser().parse(text)
    except ParserError:
        return None
    except Exception as e:  # noqa
        return f"{type(e).__name__}: {e}"
    return None


def main():
    k = json.loads(sys.argv[1])
    w = k.get("witness", {})
    if k.get("replay") == "source_text_is_read":
        r = source_text_is_read(w["text"])
        if r:
            print("reproduced:", r)
            return 1
        return 0
    print("no replay routine for this entry")
    return 0


if __name__ == "__main__":
    sys.exit(main())
