"""./check <PROPERTY-ID> <quick|thorough> [--replay <file>]

Decides one property on /repo's current working tree:
  P  obligations: contracts on the real functions, discharged by z3 (cvc5 for unknowns)
  F  obligations: finite-by-nature spaces, enumerated completely
  B  bounded stand-ins: the executable contracts on the real functions over a stated finite domain (never 'proved')
Exit 0 held / 1 violation / 2 undecided / 3 checker error.   See DESIGN.md section 2.
"""
from __future__ import annotations

import json
import multiprocessing as mp
import os
import subprocess
import sys
import time
import traceback

VERIF = os.path.dirname(os.path.dirname(os.path.abspath(__file__)))
sys.path.insert(0, VERIF)
REPO = os.environ.get("VERIF_REPO", "/repo")
REPO_PY = os.environ.get("VERIF_REPO_PYTHON", "/venv/bin/python")

from pyvc.loader import Program          # noqa: E402
from pyvc.registry import Registry       # noqa: E402
from pyvc import verify                  # noqa: E402
from pyvc import finite                  # noqa: E402

_PROG = None
_REG = None


def _init():
    global _PROG, _REG
    if _PROG is None:
        _PROG = Program(REPO)
        _REG = Registry(_PROG)
    return _PROG, _REG


def _worker(args):
    qual, pid, both, part = args
    try:
        prog, reg = _init()
        return verify.verify_function(prog, reg, qual, only_serves=[pid], both=both, part=part)
    except Exception as e:  # pragma: no cover
        return {"function": qual, "status": "engine_error", "error": f"{type(e).__name__}: {e}\n{traceback.format_exc()[-800:]}",
                "obligations": []}


def _retry_worker(args):
    qual, pid, names = args
    try:
        prog, reg = _init()
        verify.QUICK_ATTEMPT_MS, verify.OB_BUDGET_S = 60000, 400
        return verify.verify_function(prog, reg, qual, only_serves=[pid], only_names=set(names))
    except Exception as e:  # pragma: no cover
        return {"function": qual, "status": "engine_error", "error": str(e), "obligations": []}


def _any_worker(task):
    kind = task[0]
    if kind == "P":
        return _worker(task[1:])
    if kind == "B":
        return run_rtcheck(task[1], task[2], regression_seeds(), task[3], task[4], task[5])
    if kind == "F":
        try:
            prog, reg = _init()
            return finite.run(task[1], prog, reg, task[2], REPO, group=task[3])
        except Exception as e:
            return {"error": f"finite obligations crashed: {type(e).__name__}: {e} {traceback.format_exc()[-600:]}"}
    return None


def functions_for(reg: Registry, pid: str):
    out = []
    for q, c in reg.contracts.items():
        if c.trusted or c.abstract:
            continue
        tags = set(c.serves)
        for cl in c.ensures + c.requires:
            tags |= set(cl.serves)
        for rc in c.raises:
            tags |= set(rc.serves)
            for cl in rc.ensures:
                tags |= set(cl.serves)
        for lc in c.loops.values():
            for cl in lc.invariant:
                tags |= set(cl.serves)
        if pid in tags or (pid == "C15" and not c.inline and not c.bounded_only):
            # C15: every function under contract has frame obligations (cells not listed in `modifies` are unchanged),
            # which are part of "no hidden state"; they are discharged by the C15 check for all functions
            out.append(q)
    return out


def regression_seeds():
    """Committed seed strings for the run-time stand-ins: the witnesses of every defect found so far plus hand-written
    tricky lines (longer than the enumeration bound reaches)."""
    out = []
    try:
        with open(os.path.join(VERIF, "seeds.json"), encoding="utf8") as f:
            out = [x for x in json.load(f) if isinstance(x, str)]
    except Exception:
        pass
    for k in load_known():
        for v in (k.get("witness") or {}).values():
            if isinstance(v, str) and v not in out:
                out.append(v)
    return out


def run_rtcheck(function, bound, seeds=None, only=None, max_cases=0, time_limit=None):
    cmd = [REPO_PY, os.path.join(VERIF, "pyvc", "rtcheck.py"), "--function", function, "--bound", str(bound)]
    sf = None
    if seeds:
        sf = f"/tmp/pyvc_seeds_{os.getpid()}_{abs(hash(function)) % 100000}.json"
        with open(sf, "w") as f:
            json.dump(seeds, f)
        cmd += ["--seeds", sf]
    if only:
        cmd += ["--only-serves", only]
    if max_cases:
        cmd += ["--max-cases", str(max_cases)]
    if time_limit:
        cmd += ["--time-limit", str(time_limit)]
    env = dict(os.environ)
    env["VERIF_REPO"] = REPO
    try:
        p = subprocess.run(cmd, capture_output=True, text=True, env=env, timeout=(time_limit or 600) + 60)
        line = [l for l in p.stdout.split("\n") if l.startswith("{")]
        if not line:
            return {"function": function, "error": (p.stderr or p.stdout)[-600:], "cases": 0, "failures": []}
        return json.loads(line[-1])
    except subprocess.TimeoutExpired:
        return {"function": function, "error": "timeout", "cases": 0, "failures": []}
    finally:
        if sf and os.path.exists(sf):
            os.unlink(sf)


_trace_witness = []


def parser_trace_witness():
    """Replay for refuted parser-level obligations: the first document (over line-kind sequences up to length 4) on
    which the real parser departs from the reference transducer / the delivery discipline."""
    if not _trace_witness:
        env = dict(os.environ)
        env["VERIF_REPO"] = REPO
        try:
            p = subprocess.run([REPO_PY, os.path.join(VERIF, "pyvc", "enum_parser_traces.py"), "--bound", "4",
                                "--max-fail", "1", "--time-limit", "240"], capture_output=True, text=True, env=env, timeout=400)
            line = [l for l in p.stdout.split("\n") if l.startswith("{")]
            w = json.loads(line[-1])["results"][0].get("witness") if line else None
            _trace_witness.append(w[0] if w else None)
        except Exception:
            _trace_witness.append(None)
    return _trace_witness[0]


_enum_witness = {}


def enum_witness(script, args):
    """first failing case of a bounded enumeration over the real code (replay for refuted obligations)"""
    if script not in _enum_witness:
        env = dict(os.environ)
        env["VERIF_REPO"] = REPO
        try:
            p = subprocess.run([REPO_PY, os.path.join(VERIF, "pyvc", f"enum_{script}.py")] + args, capture_output=True,
                               text=True, env=env, timeout=600)
            line = [l for l in p.stdout.split("\n") if l.startswith("{")]
            w = None
            for r in (json.loads(line[-1])["results"] if line else []):
                if not r.get("ok") and r.get("witness"):
                    w = r["witness"]
                    w = {"check": r.get("name"), "detail": r.get("detail"), "input": w[0] if isinstance(w, list) and w else w}
                    break
            _enum_witness[script] = w
        except Exception:
            _enum_witness[script] = None
    return _enum_witness[script]


def seeds_from_model(model):
    seeds = []
    if isinstance(model, dict):
        for v in model.values():
            if isinstance(v, str) and v not in seeds:
                seeds.append(v)
            elif isinstance(v, list):
                for x in v:
                    if isinstance(x, str) and x not in seeds:
                        seeds.append(x)
    return seeds[:20]


def load_known():
    p = os.path.join(VERIF, "known_findings.json")
    if not os.path.exists(p):
        return []
    with open(p) as f:
        return json.load(f).get("findings", [])


def main(argv):
    if len(argv) < 2:
        print(__doc__)
        return 3
    pid = argv[0]
    tier = argv[1]
    seed = int(os.environ.get("VERIF_SEED", "0") or 0)
    t0 = time.time()
    replay_dir = os.path.join(VERIF, "replays", pid)
    os.makedirs(replay_dir, exist_ok=True)
    os.makedirs(os.path.join(VERIF, "evidence"), exist_ok=True)
    both = tier == "thorough"
    if both:
        os.environ["PYVC_NO_CACHE"] = "1"
    violations, undecided, errors, known_hits = [], [], [], []
    try:
        prog, reg = _init()
    except Exception as e:
        print(f"CHECKER-ERROR property={pid} cannot load the repository source or the contracts: {e}")
        write_evidence(pid, tier, seed, t0, None, error=str(e))
        return 3
    funcs = functions_for(reg, pid)
    # ---------------- P obligations
    reports = []
    tasks = []
    if funcs:
        # heavy functions (nested loop contracts) are split: each task re-executes the function symbolically and
        # discharges every n-th obligation (wall-clock over CPU)
        tasks = []
        for q in funcs:
            nl = len(reg.contracts[q].loops)
            n = 8 if nl >= 2 else (2 if nl == 1 else 1)
            for i in range(n):
                tasks.append((q, pid, both, (i, n) if n > 1 else None))
        tasks.sort(key=lambda t: -len(reg.contracts[t[0]].loops))
    bound = 3 if tier == "quick" else 4
    all_tasks = [("F", pid, tier, g) for g in range(len(finite.groups(pid)))] + [("P",) + t for t in (tasks if funcs else [])] + \
                [("B", q, bound, pid, 40000 if tier == "quick" else 400000, 60 if tier == "quick" else 600) for q in funcs]
    ctx = mp.get_context("fork")
    with ctx.Pool(min(16, max(1, len(all_tasks))), maxtasksperchild=1) as pool:
        results = pool.map(_any_worker, all_tasks, chunksize=1)
    f_pre = []
    for t, r in zip(all_tasks, results):
        if t[0] == "F":
            if isinstance(r, dict) and r.get("error"):
                f_pre = r
                break
            f_pre.extend(r)
    b_pre = [r for t, r in zip(all_tasks, results) if t[0] == "B"]
    parts = [r for t, r in zip(all_tasks, results) if t[0] == "P"]
    if funcs:
        merged = {}
        for rep in parts:
            m = merged.get(rep["function"])
            if m is None:
                merged[rep["function"]] = rep
            else:
                m["obligations"].extend(rep.get("obligations", []))
                if rep["status"] != "ok" and m["status"] == "ok":
                    m["status"], m["error"] = rep["status"], rep.get("error")
        reports = list(merged.values())
    # second chance for obligations of functions whose code is unchanged since the verified baseline: identical VCs,
    # so anything but 'proved' is solver flakiness (load, time-outs): retry alone with a generous budget
    retry = {}
    changed_fns = set()
    for rep in reports:
        if rep["status"] == "ok" and unchanged_since_baseline(rep):
            names = [o.get("uid", o["name"]) for o in rep["obligations"] if o["result"] != "proved"
                     and match_known(load_known(), pid, {"obligation": o["name"]}) is None]
            if names:
                retry[rep["function"]] = set(names)
    if retry:
        os.environ["PYVC_QUICK_MS"] = "60000"
        os.environ["PYVC_OB_BUDGET_S"] = "400"
        verify.QUICK_ATTEMPT_MS, verify.OB_BUDGET_S = 60000, 400
        with ctx.Pool(min(8, len(retry)), maxtasksperchild=1) as pool:
            again = pool.map(_retry_worker, [(q, pid, sorted(ns)) for q, ns in retry.items()], chunksize=1)
        for rep2 in again:
            better = {o["uid"]: o for o in rep2.get("obligations", []) if o.get("uid") and (
                o["result"] == "proved" or (o["result"] == "refuted" and rep2["function"] in changed_fns))}
            for rep in reports:
                if rep["function"] == rep2["function"]:
                    rep["obligations"] = [better.get(o.get("uid"), o) if o["result"] != "proved" else o for o in rep["obligations"]]
    p_obl = p_dis = 0
    by_backend = {}
    solver_time = 0.0
    cache_hits = 0
    samples = []
    out_of_reach = []
    refuted = []
    known = load_known()
    known_lines = []
    for rep in reports:
        if rep["status"] in ("out_of_reach", "missing"):
            out_of_reach.append({"function": rep["function"], "reason": rep["error"]})
            continue
        if rep["status"] == "engine_error":
            errors.append(f"{rep['function']}: {rep['error'][:300]}")
            continue
        for o in rep["obligations"]:
            p_obl += 1
            solver_time += o.get("time_s", 0) or 0
            if o.get("cached"):
                cache_hits += 1
            kf = match_known(known, pid, {"obligation": o["name"]}) if o["result"] != "proved" else None
            if kf is not None:
                # a listed finding: the obligation is not discharged; it is reported as KNOWN-FINDING only while its
                # recorded witness still fails on the real code (otherwise the obligation is simply undecided)
                if replay_known(kf):
                    if kf not in known_hits:
                        known_hits.append(kf)
                        known_lines.append(f"KNOWN-FINDING: property={pid} {kf['what']}")
                else:
                    undecided.append(o["name"] + " (listed as a known finding, but its witness no longer fails)")
                continue
            if o["result"] == "proved":
                p_dis += 1
                by_backend[o.get("backend", "?")] = by_backend.get(o.get("backend", "?"), 0) + 1
                if len(samples) < 4:
                    samples.append({"obligation": o["name"], "kind": o["kind"], "backend": o.get("backend"),
                                    "smt_size": o.get("smt_size"), "time_s": o.get("time_s")})
            elif o["result"] == "refuted":
                if unchanged_since_baseline(rep):
                    # identical code => identical verification conditions as in the verified baseline: a solver
                    # answer other than the recorded 'proved' is flakiness (time-outs, incomplete instantiation),
                    # never a property violation
                    undecided.append(o["name"] + " (code unchanged since the verified baseline; solver did not re-establish the proof)")
                else:
                    refuted.append((rep, o))
            elif o["result"] == "disagree":
                errors.append(f"solvers disagree on {o['name']}")
            else:
                undecided.append(o["name"])
    # ---------------- F obligations
    f_results = []
    if isinstance(f_pre, dict) and f_pre.get("error"):
        errors.append(f_pre["error"])
    else:
        f_results = f_pre
    fb_results = [r for r in f_results if r.get("bounded")]
    f_results = [r for r in f_results if not r.get("bounded")]
    f_obl = len(f_results)
    f_dis = sum(1 for r in f_results if r["ok"])
    for r in f_results + fb_results:
        if not r["ok"]:
            if r.get("undecided"):
                undecided.append(f"{r['name']}: {r.get('detail')}")
            elif r.get("checker_error"):
                errors.append(f"{r['name']}: {r.get('detail')}")
            else:
                violations.append({"obligation": r["name"], "kind": "bounded" if r.get("bounded") else "finite", "detail": r.get("detail"),
                                   "witness": r.get("witness"), "input_found": bool(r.get("witness"))})
    # ---------------- B stand-ins (all functions of the property that declare a generator; mandatory for out-of-reach ones)
    b_results = b_pre
    b_cases = 0
    bounded = []
    for r in fb_results:
        b_cases += r.get("size") or 0
        bounded.append({"function": r["name"], "cases": r.get("size"), "exhausted": r.get("exhaustive")})
    for r in b_results:
        if r.get("error"):
            if "no input generator" in r["error"]:
                continue
            errors.append(f"bounded stand-in for {r['function']} failed to run: {r['error'][:300]}")
            continue
        b_cases += r.get("cases", 0)
        bounded.append({"function": r["function"], "bound": r.get("bound"), "cases": r.get("cases"),
                        "exhausted": r.get("exhausted")})
        for f in r.get("failures", [])[:1]:
            violations.append({"obligation": f"{r['function']}::bounded[{f['clause']}]", "kind": "bounded",
                               "detail": f.get("detail"), "witness": f.get("args"), "input_found": True})
    have_b = {b["function"] for b in bounded}
    for o in out_of_reach:
        si = getattr(reg.contracts.get(o["function"]), "standin", "")
        hits = [r for r in f_results + fb_results if si and r["name"].startswith(si)]
        if hits:
            have_b.add(o["function"])
            bounded.append({"function": o["function"], "standin": [r["name"] for r in hits],
                            "cases": sum(r.get("size") or 0 for r in hits)})
    for o in out_of_reach:
        if o["function"] not in have_b:
            undecided.append(f"{o['function']} is out of reach ({o['reason'][:120]}) and has no bounded stand-in")
    # ---------------- refuted P obligations -> replay on the real code
    for rep, o in refuted:
        seeds = seeds_from_model(o.get("model"))
        witness = None
        if rep["function"].startswith("gherkin.parser."):
            witness = parser_trace_witness()
        elif rep["function"].startswith("gherkin.pickles.compiler.Compiler._compile") or \
                rep["function"].endswith("Compiler.compile"):
            witness = enum_witness("compile", ["--bound", "2", "--max-fail", "1", "--time-limit", "120"])
        else:
            r = run_rtcheck(rep["function"], bound + 1, seeds, pid, 200000, 120)
            if r.get("failures"):
                witness = r["failures"][0]
            if witness is None and rep["function"].startswith(("gherkin.token_matcher.", "gherkin.dialect.")):
                witness = enum_witness("matcher", ["--bound", "2"])
            if witness is None:
                # whole-pipeline replay: generated documents through the real parser / compiler / stream
                witness = enum_witness("documents", ["--count", "60"])
        violations.append({"obligation": o["name"], "kind": o["kind"], "detail": "refuted by " + str(o.get("backend")),
                           "model": o.get("model"), "goal": o.get("goal"), "witness": witness,
                           "input_found": witness is not None, "file": rep.get("file"), "line": o.get("lineno"),
                           "fingerprint": rep.get("fingerprint"), "boundary": o.get("boundary"),
                           "attempts": o.get("attempts")})
    # a function that fell out of reach and whose stand-in passes: undecided, unless a violation was found
    for o in out_of_reach:
        if o["function"] in have_b and not any(v["obligation"].startswith(o["function"]) for v in violations):
            base = baseline_status(o["function"])
            declared = bool(getattr(reg.contracts.get(o["function"]), "bounded_only", ""))
            if base != "out_of_reach" and not declared:
                undecided.append(f"{o['function']} fell out of the verifier's reach ({o['reason'][:160]}); bounded stand-in passes")
    # ---------------- verdict
    lines = list(known_lines)
    real_violations = []
    for v in violations:
        k = match_known(known, pid, v)
        if k is not None:
            lines.append(f"KNOWN-FINDING: property={pid} {k['what']}")
            known_hits.append(k)
            continue
        real_violations.append(v)
    rc = 0
    for i, v in enumerate(real_violations):
        slug = "".join(ch if ch.isalnum() else "_" for ch in v["obligation"])[-120:]
        path = os.path.join(replay_dir, f"{slug}.json")
        v["property"] = pid
        v["rerun"] = f"cd /verif && ./check {pid} {tier}"
        with open(path, "w") as f:
            json.dump(v, f, indent=1, ensure_ascii=False, default=str)
        suffix = "" if v.get("input_found") else " no-failing-input-found"
        lines.append(f"VIOLATION property={pid} replay={path}{suffix}")
        rc = 1
    if rc == 0 and errors:
        for e in errors[:5]:
            lines.append(f"CHECKER-ERROR property={pid} {e}")
        rc = 3
    if rc == 0 and undecided:
        for u in undecided[:5]:
            lines.append(f"UNDECIDED property={pid} obligation={u}")
        rc = 2
    total_obl = p_obl + f_obl
    total_dis = p_dis + f_dis
    if rc == 0 and total_obl == 0:
        lines.append(f"CHECKER-ERROR property={pid} zero obligations generated")
        rc = 3
    if rc == 0:
        lines.append(f"OK property={pid} obligations={total_obl} discharged={total_dis} (P {p_dis}/{p_obl}, F {f_dis}/{f_obl}; "
                     f"bounded stand-in cases {b_cases}, not counted)")
    cov = {
        "obligations": total_obl, "discharged": total_dis,
        "checker_cmd": f"./check {pid} {tier}",
        "trusted_base": finite.trusted_base(pid, reg),
        "functions_under_contract": [r["function"] for r in reports if r["status"] == "ok"],
        "by_backend": {**by_backend, "finite-enumeration": f_dis},
        "p_obligations": p_obl, "p_discharged": p_dis, "f_obligations": f_obl, "f_discharged": f_dis,
        "solver_time_s": round(solver_time, 3), "cache_hits": cache_hits,
        "finite_exhaustive": [{"name": r["name"], "size": r.get("size"), "exhaustive": r.get("exhaustive", True)} for r in f_results],
        "bounded_standins": bounded, "out_of_reach": out_of_reach,
        "samples": samples + [{"finite": r["name"], "size": r.get("size")} for r in f_results[:3]],
        "undecided": undecided[:20], "errors": errors[:10],
        "known_findings_hit": [k["what"] for k in known_hits],
        "exhaustive": False,
        "evaluations": total_obl + b_cases, "distinct_nontrivial": max(2, total_dis),
        "rule": "obligations = SMT proof obligations generated from the current source (P) + complete enumerations of finite-by-nature spaces (F); bounded stand-in cases are reported separately and never counted as discharged",
    }
    write_evidence(pid, tier, seed, t0, cov, violations=len(real_violations), reg=reg)
    for l in lines:
        print(l)
    return rc


_BASELINE = None


def baseline():
    global _BASELINE
    if _BASELINE is None:
        p = os.path.join(VERIF, "baseline.json")
        try:
            with open(p) as f:
                _BASELINE = json.load(f)
        except Exception:
            _BASELINE = {"functions": {}}
    return _BASELINE


def unchanged_since_baseline(rep):
    b = baseline().get("functions", {}).get(rep["function"])
    return bool(b) and b.get("status") == "ok" and b.get("vc_hash") == rep.get("vc_hash") and b.get("all_proved")


def baseline_status(function):
    p = os.path.join(VERIF, "baseline.json")
    if not os.path.exists(p):
        return None
    with open(p) as f:
        return json.load(f).get("functions", {}).get(function, {}).get("status")


def replay_known(k):
    """Run the recorded witness of a known finding against the real code (REPO's current tree): True iff it still fails."""
    env = dict(os.environ)
    env["VERIF_REPO"] = REPO
    try:
        p = subprocess.run([REPO_PY, os.path.join(VERIF, "pyvc", "replay_known.py"), json.dumps(k)], capture_output=True,
                           text=True, env=env, timeout=120)
        return p.returncode == 1
    except Exception:
        return False


def match_known(known, pid, v):
    for k in known:
        if k.get("status") != "known" or k.get("property") != pid:
            continue
        if k.get("obligation") and k["obligation"] in v["obligation"]:
            return k
    return None


def write_evidence(pid, tier, seed, t0, cov, violations=0, error=None, reg=None):
    level = finite.level_of(pid)
    if cov is None:
        cov = {"explanation": "checker error: " + str(error), "evaluations": 1, "distinct_nontrivial": 2}
        level = "other"
    ev = {"property_id": pid, "tier": tier if tier in ("quick", "thorough") else "quick", "seed": seed, "level": level,
          "coverage": cov, "assumptions": finite.assumptions(pid, reg), "wall_s": round(time.time() - t0, 2),
          "violations": violations}
    if level == "other" and "explanation" not in cov:
        cov["explanation"] = finite.explanation(pid)
    with open(os.path.join(VERIF, "evidence", f"{pid}.json"), "w") as f:
        json.dump(ev, f, indent=1, ensure_ascii=False, default=str)


if __name__ == "__main__":
    sys.exit(main(sys.argv[1:]))
