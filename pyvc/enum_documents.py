"""Whole-pipeline bounded stand-ins (B): documents rendered from models with known positions are pushed through the
REAL parser / compiler / stream of $VERIF_REPO and compared with what the model says (pyvc/docmodel.py).

Sections (each one result line; the checks of the properties pick the ones they need):
  documents::ast            AST == model (every element once, in order, exact text, descriptions)            C03 C13 C12
  documents::locations      every location == rendered position; slicing the source there gives the element  C04
  documents::ids            ids 0..n-1 in canonical order; pickle ids continue; references resolve            C11
  documents::layout         CRLF / trailing blanks / extra indentation / blank lines / comments / final EOL   C16
  documents::history        used parser+matcher == fresh ones; interleaved parses                             C15
  documents::errors         injected faults: right line, message prefix, stop mode == first collected error   C14
  documents::stream         envelopes, 8 option combinations, shapes, order, id continuity                   C17 C11
  documents::total          noisy inputs: only typed errors, 1..11 of them; matcher calls linear             C01
"""
from __future__ import annotations

import argparse
import copy
import json
import os
import random
import sys
import tempfile
import time

VERIF = os.path.dirname(os.path.dirname(os.path.abspath(__file__)))
REPO = os.environ.get("VERIF_REPO", "/repo")
sys.path.insert(0, VERIF)
sys.path.insert(0, os.path.join(REPO, "python"))

from pyvc.docmodel import Builder, Layout, sample_documents, strip_locations  # noqa: E402
from pyvc.enum_compile import spec_pickles  # noqa: E402


def parse(text, parser=None, matcher=None):
    from gherkin.parser import Parser
    from gherkin.token_matcher import TokenMatcher
    from gherkin.token_scanner import TokenScanner
    p = parser or Parser()
    return p.parse(TokenScanner(text), matcher or TokenMatcher())


def fresh_parse(text, stop=False):
    from gherkin.parser import Parser
    from gherkin.ast_builder import AstBuilder
    from gherkin.stream.id_generator import IdGenerator
    from gherkin.token_scanner import TokenScanner
    from gherkin.errors import CompositeParserException, ParserException
    p = Parser(AstBuilder(IdGenerator()))
    p.stop_at_first_error = stop
    try:
        return "ok", p.parse(TokenScanner(text))
    except CompositeParserException as e:
        return "errors", [(x.location.get("line"), x.location.get("column"), str(x)) for x in e.errors]
    except ParserException as e:
        return "errors", [(e.location.get("line"), e.location.get("column"), str(e))]


def render(doc, layout):
    b = Builder(layout)
    return b.document(copy.deepcopy(doc))


def first_diff(a, b, path=""):
    if type(a) != type(b):
        return f"{path}: {a!r:.80} vs {b!r:.80}"
    if isinstance(a, dict):
        for k in sorted(set(a) | set(b)):
            if k not in a or k not in b:
                return f"{path}.{k}: {'missing in parser result' if k not in a else 'unexpected in parser result'}"
            d = first_diff(a[k], b[k], path + "." + k)
            if d:
                return d
        return None
    if isinstance(a, list):
        if len(a) != len(b):
            return f"{path}: {len(a)} items vs {len(b)} expected"
        for i, (x, y) in enumerate(zip(a, b)):
            d = first_diff(x, y, f"{path}[{i}]")
            if d:
                return d
        return None
    return None if a == b else f"{path}: {a!r:.80} vs expected {b!r:.80}"


def walk_nodes(ast):
    """(kind, node) for every located node of the AST"""
    out = []

    def rows(rs):
        for r in rs:
            out.append(("row", r))
            for c in r["cells"]:
                out.append(("cell", c))

    def steps(ss):
        for s in ss:
            out.append(("step", s))
            if "dataTable" in s:
                rows(s["dataTable"]["rows"])
            if "docString" in s:
                out.append(("docstring", s["docString"]))

    def scenario(sc):
        out.append(("keyword", sc))
        for t in sc["tags"]:
            out.append(("tag", t))
        steps(sc["steps"])
        for ex in sc["examples"]:
            out.append(("keyword", ex))
            for t in ex["tags"]:
                out.append(("tag", t))
            rows(([ex["tableHeader"]] if "tableHeader" in ex else []) + ex["tableBody"])

    def kids(cs):
        for c in cs:
            if "background" in c:
                out.append(("keyword", c["background"]))
                steps(c["background"]["steps"])
            elif "scenario" in c:
                scenario(c["scenario"])
            else:
                out.append(("keyword", c["rule"]))
                for t in c["rule"]["tags"]:
                    out.append(("tag", t))
                kids(c["rule"]["children"])
    f = ast.get("feature")
    if f:
        out.append(("keyword", f))
        for t in f["tags"]:
            out.append(("tag", t))
        kids(f["children"])
    for c in ast.get("comments", []):
        out.append(("comment", c))
    return out


def check_slices(text, ast):
    """C04: reading the source at each reported location gives back the element"""
    lines = text.split("\n")
    bad = []
    for kind, n in walk_nodes(ast):
        loc = n["location"]
        if loc["line"] < 1 or loc["line"] > len(lines):
            bad.append(f"{kind}: line {loc['line']} outside the document")
            continue
        line = lines[loc["line"] - 1]
        col = loc.get("column")
        if col is None or col < 1:
            bad.append(f"{kind}: no column")
            continue
        rest = line[col - 1:]
        if kind in ("keyword", "step"):
            ok = rest.startswith(n["keyword"])
        elif kind == "tag":
            ok = rest.startswith(n["name"])
        elif kind == "row":
            ok = rest.startswith("|")
        elif kind == "cell":
            ok = rest.startswith("|") if n["value"] == "" else (not rest[:1].isspace() and rest[:1] != "")
        elif kind == "docstring":
            ok = rest.startswith(n["delimiter"])
        else:
            ok = col == 1
        if not ok:
            bad.append(f"{kind} at {loc}: source there is {rest[:12]!r}")
    return bad


def all_ids(ast):
    out = []
    for kind, n in walk_nodes(ast):
        if "id" in n:
            out.append(n["id"])
    return out


def canonical(ast):
    return json.loads(json.dumps(ast))


# ---------------------------------------------------------------------------------------------
def section_documents(docs, results):
    n = 0
    bad_ast, bad_loc, bad_ids = [], [], []
    base = Layout()
    for doc in docs:
        text, want, nids = render(doc, base)
        n += 1
        st, got = fresh_parse(text)
        if st != "ok":
            bad_ast.append({"text": text, "problem": f"rejected: {got[:2]}"})
            continue
        got = canonical(got)
        d = first_diff(strip_locations(got), strip_locations(want))
        if d:
            bad_ast.append({"text": text, "problem": d})
        else:
            d2 = first_diff(got, want)
            if d2:
                bad_loc.append({"text": text, "problem": d2})
        sl = check_slices(text, got)
        if sl:
            bad_loc.append({"text": text, "problem": sl[0]})
        ids = all_ids(got)
        if sorted(ids, key=int) != [str(i) for i in range(nids)] or len(set(ids)) != len(ids):
            bad_ids.append({"text": text, "problem": f"ids {sorted(ids, key=int)[:8]}.. are not 0..{nids - 1}"})
        else:
            from gherkin.pickles.compiler import Compiler
            from gherkin.stream.id_generator import IdGenerator
            g = IdGenerator()
            g._id_counter = nids
            d3 = dict(got)
            d3["uri"] = "u"
            pk = Compiler(g).compile(d3)
            want_pk, nxt = spec_pickles(d3, nids)
            if pk != want_pk:
                bad_ids.append({"text": text, "problem": "pickles (ids / references) differ from the reference composition"})
            node_ids = set(ids)
            for p in pk:
                refs = list(p["astNodeIds"]) + [t["astNodeId"] for t in p["tags"]] + [i for s in p["steps"] for i in s["astNodeIds"]]
                if any(r not in node_ids for r in refs):
                    bad_ids.append({"text": text, "problem": "a pickle references an id that is not an AST node"})
        if len(bad_ast) + len(bad_loc) + len(bad_ids) > 6:
            break
    results.append(dict(name="documents::ast[AST == model: elements once, in order, exact text, descriptions, doc strings, cells]",
                        ok=not bad_ast, size=n, detail=bad_ast[0]["problem"] if bad_ast else None, witness=bad_ast[:2] or None))
    results.append(dict(name="documents::locations[every location == rendered position; source sliced at the location gives the element]",
                        ok=not bad_loc, size=n, detail=bad_loc[0]["problem"] if bad_loc else None, witness=bad_loc[:2] or None))
    results.append(dict(name="documents::ids[ids 0..n-1 in canonical order; pickle ids continue; every reference resolves]",
                        ok=not bad_ids, size=n, detail=bad_ids[0]["problem"] if bad_ids else None, witness=bad_ids[:2] or None))


def shift_columns(x, d):
    if isinstance(x, dict):
        out = {}
        for k, v in x.items():
            if k == "location" and isinstance(v, dict) and "column" in v:
                out[k] = {"line": v["line"], "column": v["column"] + d}
            else:
                out[k] = shift_columns(v, d)
        return out
    if isinstance(x, list):
        return [shift_columns(v, d) for v in x]
    return x


def section_layout(docs, results):
    bad, n = [], 0
    for doc in docs:
        text, want, _ = render(doc, Layout())
        st, ref = fresh_parse(text)
        if st != "ok":
            continue
        ref = canonical(ref)
        variants = {
            "CRLF": render(doc, Layout(eol="\r\n"))[0],
            "trailing blanks": render(doc, Layout(trailing=" \t"))[0],
            "no final line break": render(doc, Layout(final_eol=False))[0],
        }
        for name, t2 in variants.items():
            n += 1
            st2, got = fresh_parse(t2)
            if st2 != "ok" or canonical(got) != ref:
                d = first_diff(canonical(got), ref) if st2 == "ok" else f"rejected {got[:1]}"
                bad.append({"transformation": name, "text": t2, "problem": d})
        # file instead of string
        n += 1
        with tempfile.NamedTemporaryFile("w", suffix=".feature", delete=False, encoding="utf8", newline="") as f:
            f.write(variants["CRLF"])
            path = f.name
        try:
            from gherkin.stream.source_events import source_event
            ev = source_event(path)
            if ev["source"]["data"] != variants["CRLF"]:
                bad.append({"transformation": "file", "problem": "source_event changed the file's text"})
            st3, got3 = fresh_parse(ev["source"]["data"])
            if st3 != "ok" or canonical(got3) != ref:
                bad.append({"transformation": "file (CRLF)", "problem": "AST differs"})
        finally:
            os.unlink(path)
        # indenting every keyword / step / tag / row / delimiter line (doc strings as a block) changes only columns.
        # Descriptions are verbatim free text: they keep their text, so the comparison uses the re-rendered model.
        n += 1
        t3, want3, _ = render(doc, Layout(extra_indent=3))
        st4, got4 = fresh_parse(t3)
        if st4 != "ok":
            bad.append({"transformation": "extra indentation", "text": t3, "problem": f"rejected {got4[:1]}"})
        else:
            d = first_diff(canonical(got4), want3)
            if d:
                bad.append({"transformation": "extra indentation", "text": t3, "problem": d})
        if len(bad) > 4:
            break
    results.append(dict(name="documents::layout[CRLF, trailing blanks, final line break, file vs string, extra indentation]",
                        ok=not bad, size=n, detail=(bad[0]["transformation"] + ": " + str(bad[0]["problem"])) if bad else None,
                        witness=bad[:2] or None))


def section_blank_comment_insertion(docs, results):
    """inserting a blank line / a comment line before a keyword, step, tag, row or opening delimiter line"""
    bad, n = [], 0
    for doc in docs:
        text, _, _ = render(doc, Layout())
        st, ref = fresh_parse(text)
        if st != "ok":
            continue
        ref = canonical(ref)
        lines = text.split("\n")
        # admissible positions: before a line that the reference AST locates as keyword/step/tag/row/docstring start
        starts = sorted({n_["location"]["line"] for k, n_ in walk_nodes(ref) if k in ("keyword", "step", "tag", "row", "docstring")})
        # outside descriptions: a line directly after a description text line is inside it
        desc_lines = set()
        for k, nd in walk_nodes(ref):
            if k == "keyword" and nd.get("description"):
                dl = nd["description"].split("\n")
                for i in range(len(lines)):
                    if lines[i:i + len(dl)] == dl:
                        desc_lines.update(range(i + 1, i + len(dl) + 2))
        for ln in starts[:: max(1, len(starts) // 6)]:
            if ln in desc_lines:
                continue
            for what, ins in (("blank", ""), ("comment", "   # inserted")):
                n += 1
                t2 = "\n".join(lines[:ln - 1] + [ins] + lines[ln - 1:])
                st2, got = fresh_parse(t2)
                if st2 != "ok":
                    bad.append({"transformation": what + f" line inserted before line {ln}", "text": t2, "problem": f"rejected {got[:1]}"})
                    continue
                got = canonical(got)

                def unshift(x):
                    if isinstance(x, dict):
                        o = {}
                        for k2, v in x.items():
                            if k2 == "location":
                                o[k2] = dict(v, line=v["line"] - 1 if v["line"] > ln - 1 else v["line"])
                            else:
                                o[k2] = unshift(v)
                        return o
                    if isinstance(x, list):
                        return [unshift(v) for v in x]
                    return x
                g2 = unshift(got)
                if what == "comment":
                    extra = [c for c in got["comments"] if c["location"]["line"] == ln and c["text"] == ins]
                    if len(extra) != 1:
                        bad.append({"transformation": f"comment inserted before line {ln}", "text": t2, "problem": "the inserted comment is not reported exactly once"})
                    g2["comments"] = [c for c in unshift([c for c in got["comments"] if not (c["location"]["line"] == ln and c["text"] == ins)])]
                if strip_ids(g2) != strip_ids(ref):
                    bad.append({"transformation": what + f" line inserted before line {ln}", "text": t2,
                                "problem": first_diff(strip_ids(g2), strip_ids(ref))})
        if len(bad) > 4:
            break
    results.append(dict(name="documents::insertion[blank / comment line inserted before keyword, step, tag, row and delimiter lines]",
                        ok=not bad, size=n, detail=(bad[0]["transformation"] + ": " + str(bad[0]["problem"])) if bad else None,
                        witness=bad[:2] or None))


def strip_ids(x):
    return x


def section_history(docs, results):
    from gherkin.parser import Parser
    from gherkin.token_matcher import TokenMatcher
    from gherkin.token_scanner import TokenScanner
    from gherkin.errors import ParserError
    perturb = ["Feature: f\n  Scenario: s\n    Given x\n      \"\"\"\n      # comment inside\n      open",      # ends inside a doc string
               "# a comment\nFeature: f\n  Scenario: s\n    Given x\n      ```\n",
               "# language: fr\nFonctionnalité: f\n  Scénario: s\n    Soit x\n",
               "@bad tag\nFeature: f\n", "Feature: f\n  Scenario: s\n    Given t\n      | a |\n      | b | c |\n",
               "# language: zz\nFeature: f\n", "not gherkin\n" * 12,
               # aborted while look-ahead tokens are still queued (ragged table closed by a tag line + comment)
               "Feature: f\n  Scenario: s\n    Given t\n      | a | b |\n      | c |\n    @tag\n    # comment\n\n    # more\n",
               "\n".join(f"junk {i}" for i in range(10)) + "\nFeature: f\n  Scenario: s\n    Given t\n      | a | b |\n      | c |\n    @tag\n    # c\n"]
    bad, n = [], 0
    texts = [render(d, Layout())[0] for d in docs[:12]]
    for t in texts:
        st, ref = fresh_parse(t)
        if st != "ok":
            continue
        ref = strip_id_values(canonical(ref))
        for hist in [(a,) for a in perturb] + [(a, b) for a in perturb[:4] for b in perturb[2:6]]:
            # the history is parsed in collecting and in stop-at-first-error mode; the document is then parsed by the
            # same parser / matcher, and by brand-new instances (no state may survive in the class or the module)
            for stop_mode, same_instances in ((False, True), (True, True), (True, False), (False, False)):
                if not same_instances and len(hist) > 1:
                    continue
                n += 1
                p, m = Parser(), TokenMatcher()
                p.stop_at_first_error = stop_mode
                for h in hist:
                    try:
                        p.parse(TokenScanner(h), m)
                    except ParserError:
                        pass
                p.stop_at_first_error = False
                if not same_instances:
                    p, m = Parser(), TokenMatcher()
                try:
                    got = strip_id_values(canonical(p.parse(TokenScanner(t), m)))
                except ParserError as e:
                    bad.append({"history": hist, "stop_mode": stop_mode, "same_instances": same_instances, "text": t,
                                "problem": f"rejected after the history: {e}"[:200]})
                    continue
                if got != ref:
                    bad.append({"history": hist, "stop_mode": stop_mode, "same_instances": same_instances, "text": t,
                                "problem": first_diff(got, ref)})
            if len(bad) > 3:
                break
    # one Compiler object used for several documents (each parsed with its own id generator, so ids repeat between
    # documents) must give what a new Compiler gives; and compiling must not depend on what was compiled before
    from gherkin.pickles.compiler import Compiler
    from gherkin.stream.id_generator import IdGenerator
    asts = []
    for t in texts:
        st, a = fresh_parse(t)
        if st == "ok":
            a = copy.deepcopy(a)
            a["uri"] = "u"
            asts.append(a)

    def compile_fresh(a):
        g = IdGenerator()
        g._id_counter = 1000
        return Compiler(g).compile(copy.deepcopy(a))
    for i in range(len(asts)):
        for j in range(len(asts)):
            if i == j:
                continue
            n += 1
            g = IdGenerator()
            g._id_counter = 1000
            c = Compiler(g)
            c.compile(copy.deepcopy(asts[i]))
            g._id_counter = 1000
            got = c.compile(copy.deepcopy(asts[j]))
            if got != compile_fresh(asts[j]):
                bad.append({"history": "Compiler reused after another document", "text": texts[j][:300],
                            "problem": "pickles differ from those of a new Compiler with an equal generator"})
                break
        if len(bad) > 3:
            break
    # interleaving: two parsers advanced alternately line by line (scanner-gated) give their solo results
    import threading
    for a, b in zip(texts[:6], texts[6:12]):
        n += 1
        ra, rb = fresh_parse(a), fresh_parse(b)
        out = {}

        class Gate:
            def __init__(self):
                self.turn = 0
                self.cv = threading.Condition()
                self.done = [False, False]

        gate = Gate()

        def run(i, text):
            from gherkin.token_scanner import TokenScanner as TS

            class Gated(TS):
                def read(self_inner):
                    with gate.cv:
                        while gate.turn != i and not gate.done[1 - i]:
                            gate.cv.wait(0.5)
                    tok = TS.read(self_inner)
                    with gate.cv:
                        gate.turn = 1 - i
                        gate.cv.notify_all()
                    return tok
            from gherkin.parser import Parser as P
            try:
                out[i] = ("ok", P().parse(Gated(text)))
            except ParserError as e:
                out[i] = ("errors", str(e))
            with gate.cv:
                gate.done[i] = True
                gate.cv.notify_all()
        ts = [threading.Thread(target=run, args=(0, a)), threading.Thread(target=run, args=(1, b))]
        for t_ in ts:
            t_.start()
        for t_ in ts:
            t_.join(20)
        for i, r in ((0, ra), (1, rb)):
            if i not in out or out[i][0] != r[0] or (r[0] == "ok" and strip_id_values(canonical(out[i][1])) != strip_id_values(canonical(r[1]))):
                bad.append({"problem": "interleaved parse differs from the solo parse", "text": (a, b)[i]})
    results.append(dict(name="documents::history[used parser and matcher == fresh ones (histories of 1-2 perturbing documents); interleaved parses]",
                        ok=not bad, size=n, detail=str(bad[0]["problem"]) if bad else None, witness=bad[:2] or None))


def strip_id_values(x):
    if isinstance(x, dict):
        return {k: strip_id_values(v) for k, v in x.items() if k != "id"}
    if isinstance(x, list):
        return [strip_id_values(v) for v in x]
    return x


def section_errors(docs, results):
    """faults injected into accepted documents"""
    bad, n = [], 0
    for doc in docs[:25]:
        text, _, _ = render(doc, Layout())
        st, ref = fresh_parse(text)
        if st != "ok":
            continue
        lines = text.split("\n")
        nodes = walk_nodes(canonical(ref))
        faults = []
        tag_lines = sorted({nd["location"]["line"] for k, nd in nodes if k == "tag"})
        for ln in tag_lines[:2]:
            l2 = lines[ln - 1].replace("@a", "@a\tb", 1) if "@a" in lines[ln - 1] else lines[ln - 1] + " @x y"
            faults.append(("tag with whitespace", ln, lines[:ln - 1] + [l2] + lines[ln:], "A tag may not contain whitespace"))
        row_lines = sorted({nd["location"]["line"] for k, nd in nodes if k == "row"})
        # make the second row of a table ragged
        prev = None
        for ln in row_lines:
            if prev is not None and ln == prev + 1:
                faults.append(("ragged table", ln, lines[:ln - 1] + [lines[ln - 1] + " extra |"] + lines[ln:],
                               "inconsistent cell count within the table"))
                break
            prev = ln
        faults.append(("unknown language", 1, ["# language: zz-unknown"] + lines, "Language not supported: zz-unknown"))
        step_lines = sorted({nd["location"]["line"] for k, nd in nodes if k == "step" and "docString" not in nd and "dataTable" not in nd})
        for ln in step_lines[:1]:
            faults.append(("unexpected line", ln + 1, lines[:ln] + ["   some free text"] + lines[ln:], "expected: "))
        for what, at, ls, msg in faults:
            n += 1
            t2 = "\n".join(ls)
            st2, errs = fresh_parse(t2)
            if st2 != "errors":
                bad.append({"fault": what, "text": t2, "problem": "document accepted"})
                continue
            if len({e[2] for e in errs}) != len(errs):
                bad.append({"fault": what, "text": t2, "problem": f"identical messages reported more than once: {[e[2] for e in errs][:6]}"})
            hit = [e for e in errs if e[0] == at and msg in e[2]]
            if not hit:
                bad.append({"fault": what, "text": t2, "problem": f"no error '{msg}' at line {at}: {errs[:3]}"})
            for ln_, col_, m_ in errs:
                if not m_.startswith(f"({ln_}:{col_ or 0}): ") or ln_ < 1 or ln_ > len(ls) + 1:
                    bad.append({"fault": what, "text": t2, "problem": f"message / position malformed: {m_[:60]}"})
                # an unexpected line is reported at the column of its first non-blank character, and quoted trimmed
                if ", got '" in m_ and 1 <= ln_ <= len(ls):
                    src = ls[ln_ - 1].rstrip("\r")
                    want_col = len(src) - len(src.lstrip()) + 1
                    if col_ != want_col:
                        bad.append({"fault": what, "text": t2,
                                    "problem": f"unexpected line {ln_} reported at column {col_}, its first non-blank character is at {want_col}"})
                    if not m_.endswith(f", got '{src.strip()}'"):
                        bad.append({"fault": what, "text": t2, "problem": f"unexpected line not quoted trimmed: {m_[-60:]}"})
            st3, e3 = fresh_parse(t2, stop=True)
            if st3 != "errors" or e3[0] != errs[0]:
                bad.append({"fault": what, "text": t2, "problem": f"stop-at-first-error raised {e3[:1]} but collecting lists {errs[:1]} first"})
            # layout neutrality of errors (C16): CRLF line endings and trailing blanks on keyword/step/tag/row lines
            for lname, t4 in (("CRLF", "\r\n".join(ls)), ("trailing blanks", "\n".join(
                    (l + "  \t" if (l.strip() and l.lstrip()[0] in "@|" or l.lstrip().startswith(("Given", "When", "Then", "And", "But", "*", "Scenario", "Feature", "Rule", "Background", "Examples", "   some free text"))) else l)
                    for l in ls))):
                if what == "unknown language" and lname == "trailing blanks":
                    continue
                st4, e4 = fresh_parse(t4)
                if st4 != "errors" or e4 != errs:
                    bad.append({"fault": what + " / " + lname, "text": t4, "problem": f"errors change with the layout: {e4[:2]} vs {errs[:2]}"})
            if what == "ragged table":
                # followed by a line that cannot continue the table: detection order must still give the same first error
                pass
        if len(bad) > 4:
            break
    # many errors: cap at 11, identical messages once
    n += 1
    junk = "\n".join(f"junk {i}" for i in range(30))
    st, errs = fresh_parse(junk)
    if st != "errors" or len(errs) != 11:
        bad.append({"fault": "30 unexpected lines", "problem": f"{len(errs) if st == 'errors' else 'no'} errors, expected 11"})
    same = "\n".join(["same line"] * 30)
    st, errs = fresh_parse(same)
    if st != "errors" or len(errs) != 11 or len({e[2] for e in errs}) != len(errs):
        bad.append({"fault": "30 identical lines", "problem": f"errors {len(errs)}"})
    # a tag-with-whitespace line after ten errors must not push the list beyond eleven
    n += 1
    t = "\n".join([f"junk {i}" for i in range(10)] + ["@smoke test"] + ["more junk"])
    st, errs = fresh_parse(t)
    if st != "errors" or not (1 <= len(errs) <= 11):
        bad.append({"fault": "two errors on the eleventh faulty line", "text": t, "problem": f"{len(errs)} errors"})
    # ragged table followed by a line that cannot continue it
    n += 1
    t = "Feature: f\n  Scenario: s\n    Given t\n      | a | b |\n      | c |\n    free text here\n    Given u\n"
    st, errs = fresh_parse(t)
    st2, e2 = fresh_parse(t, stop=True)
    if st != "errors" or st2 != "errors" or errs[0] != e2[0]:
        bad.append({"fault": "ragged table then unexpected line", "text": t, "problem": f"collecting lists {errs[:2]}, stop mode raised {e2[:1]}"})
    # empty row after a non-empty one
    n += 1
    t = "Feature: f\n  Scenario: s\n    Given t\n      | a |\n      |\n"
    try:
        st, errs = fresh_parse(t)
        if st != "errors" or not any("inconsistent cell count" in e[2] and e[0] == 5 for e in errs):
            bad.append({"fault": "row without cells", "text": t, "problem": f"{errs[:2]}"})
    except Exception as e:
        bad.append({"fault": "row without cells", "text": t, "problem": f"{type(e).__name__} escaped: {e}"})
    # a table with many deviating rows: between one and eleven errors in either mode, each located
    for kw in ("Given t", "Examples:"):
        n += 1
        head = "Feature: f\n  Scenario Outline: s\n    Given x\n" if kw == "Examples:" else "Feature: f\n  Scenario: s\n"
        t = head + "    " + kw + "\n      | a | b |\n" + "".join(f"      | r{i} |\n" for i in range(15))
        for stop in (False, True):
            try:
                st, errs = fresh_parse(t, stop=stop)
            except Exception as e:
                bad.append({"fault": "15 ragged rows", "text": t, "problem": f"{type(e).__name__} escaped: {e}"})
                continue
            if st != "errors" or not (1 <= len(errs) <= 11) or any(e[0] is None for e in errs):
                bad.append({"fault": "15 ragged rows" + (" (stop mode)" if stop else ""), "text": t,
                            "problem": f"{len(errs) if st == 'errors' else 'no'} errors, expected 1..11 with locations"})
            elif stop and len(errs) != 1:
                bad.append({"fault": "15 ragged rows (stop mode)", "text": t,
                            "problem": f"stop-at-first-error mode raised {len(errs)} errors"})
    # a ragged table closed by a tag line whose look-ahead meets a faulty tag line: every message once
    n += 1
    t = "Feature: F\n  Scenario: S\n    Given a table\n      | a | b |\n      | c |\n    @ok\n    @bad tag\n  Scenario: T\n    Given y\n"
    st, errs = fresh_parse(t)
    if st != "errors" or len({e[2] for e in errs}) != len(errs):
        bad.append({"fault": "ragged table + look-ahead into a faulty tag line", "text": t,
                    "problem": f"identical messages reported more than once / accepted: {[e[2] for e in errs][:6] if st == 'errors' else st}"})
    # tables whose first row has no cells: the first row with a different cell count is blamed
    for kw, pre in (("Given t", "      "), ("Examples:", "      ")):
        for rows, blame in ((["|", "| a |"], 2), (["|", "| a |", "|"], 2), (["|", "|", "| a |"], 3), (["| a |", "|", "| b |"], 2)):
            n += 1
            head = "Feature: f\n  Scenario Outline: s\n    Given x\n" if kw == "Examples:" else "Feature: f\n  Scenario: s\n"
            t = head + "    " + kw + "\n" + "".join(pre + r + "\n" for r in rows)
            first_row_line = t.count("\n") - len(rows) + 1
            try:
                st, errs = fresh_parse(t)
            except Exception as e:
                bad.append({"fault": "zero-cell rows", "text": t, "problem": f"{type(e).__name__} escaped: {e}"})
                continue
            want_line = first_row_line + blame - 1
            if st != "errors" or not any("inconsistent cell count" in e[2] and e[0] == want_line for e in errs):
                bad.append({"fault": "ragged table with a zero-cell row", "text": t,
                            "problem": f"expected 'inconsistent cell count' at line {want_line}, got {errs[:2] if st == 'errors' else 'accepted'}"})
    results.append(dict(name="documents::errors[injected faults: tag with whitespace, ragged table, unknown language, unexpected line; cap; stop mode]",
                        ok=not bad, size=n, detail=(bad[0]["fault"] + ": " + str(bad[0]["problem"])) if bad else None, witness=bad[:2] or None))


SHAPES = {
    "location": {"line": int, "column?": int},
}


def check_shape(env, problems):
    def need(d, k, ty, where):
        if k not in d:
            problems.append(f"{where}: required field {k} missing")
            return False
        if d[k] is None:
            problems.append(f"{where}.{k} is null")
            return False
        if not isinstance(d[k], ty) or (ty is int and isinstance(d[k], bool)):
            problems.append(f"{where}.{k} has type {type(d[k]).__name__}")
            return False
        return True

    def no_nulls(x, where):
        if isinstance(x, dict):
            for k, v in x.items():
                if v is None:
                    problems.append(f"{where}.{k} is null (absent optional fields must be omitted)")
                no_nulls(v, where + "." + k)
        elif isinstance(x, list):
            for i, v in enumerate(x):
                no_nulls(v, f"{where}[{i}]")
    no_nulls(env, "envelope")
    if set(env) - {"source", "gherkinDocument", "pickle", "parseError"} or len(env) != 1:
        problems.append(f"envelope keys {sorted(env)}")
        return
    if "pickle" in env:
        p = env["pickle"]
        for k, ty in (("id", str), ("uri", str), ("name", str), ("language", str), ("steps", list), ("tags", list), ("astNodeIds", list)):
            need(p, k, ty, "pickle")
        for s in p.get("steps", []):
            for k, ty in (("id", str), ("text", str), ("type", str), ("astNodeIds", list)):
                need(s, k, ty, "pickle.step")
            if s.get("type") not in ("Unknown", "Context", "Action", "Outcome"):
                problems.append(f"pickle step type {s.get('type')!r}")
    if "gherkinDocument" in env:
        d = env["gherkinDocument"]
        need(d, "uri", str, "gherkinDocument")
        need(d, "comments", list, "gherkinDocument")
        for kind, n in walk_nodes(d):
            if kind == "step" and n.get("keywordType") not in ("Unknown", "Context", "Action", "Outcome", "Conjunction"):
                problems.append(f"step keywordType {n.get('keywordType')!r}")
            loc = n.get("location")
            if not isinstance(loc, dict) or not isinstance(loc.get("line"), int):
                problems.append(f"{kind} without a line")
    if "parseError" in env:
        e = env["parseError"]
        need(e, "message", str, "parseError")
        if need(e, "source", dict, "parseError"):
            need(e["source"], "uri", str, "parseError.source")
            if need(e["source"], "location", dict, "parseError.source"):
                need(e["source"]["location"], "line", int, "parseError.source.location")
    if "source" in env:
        for k in ("uri", "data", "mediaType"):
            need(env["source"], k, str, "source")


def section_stream(docs, results):
    from gherkin.stream.gherkin_events import GherkinEvents
    bad, n = [], 0
    good = [render(d, Layout())[0] for d in docs[:8]]
    rejected = ["Feature: f\n  Scenario: s\n    Given t\n      | a |\n      | b | c |\n", "@a b\nFeature: f\n", "junk\n",
                "Feature: f\n  Scenario: s\n    Given x\n      \"\"\"\n"]
    sources = []
    for i, t in enumerate(good[:4] + rejected[:2] + good[4:8] + rejected[2:]):
        sources.append({"source": {"uri": f"mem/{i}.feature", "data": t, "mediaType": "text/x.cucumber.gherkin+plain"}})
    for ps in (True, False):
        for pa in (True, False):
            for pp in (True, False):
                ge = GherkinEvents(GherkinEvents.Options(print_source=ps, print_ast=pa, print_pickles=pp))
                seen_ids = []
                for se in sources:
                    n += 1
                    before = copy.deepcopy(se)
                    try:
                        evs = list(ge.enum(se))
                    except Exception as e:
                        bad.append({"options": (ps, pa, pp), "uri": se["source"]["uri"], "problem": f"{type(e).__name__} escaped: {e}"})
                        continue
                    probs = []
                    try:
                        json.dumps(evs)
                    except Exception as e:
                        probs.append(f"not JSON-serialisable: {e}")
                    for ev in evs:
                        check_shape(ev, probs)
                    st, ref = fresh_parse(se["source"]["data"])
                    kinds = [next(iter(ev)) for ev in evs]
                    if st == "ok":
                        exp = (["source"] if ps else []) + (["gherkinDocument"] if pa else [])
                        if kinds[:len(exp)] != exp or any(k != "pickle" for k in kinds[len(exp):]) or (not pp and len(kinds) != len(exp)):
                            probs.append(f"envelope order {kinds[:6]} for options {(ps, pa, pp)}")
                        if ps and evs and evs[0] != before:
                            probs.append("source envelope is not the source given")
                        for ev in evs:
                            if "gherkinDocument" in ev and ev["gherkinDocument"].get("uri") != se["source"]["uri"]:
                                probs.append("gherkinDocument without the uri")
                            if "pickle" in ev and ev["pickle"].get("uri") != se["source"]["uri"]:
                                probs.append("pickle without the uri")
                    else:
                        if not kinds or any(k != "parseError" for k in kinds) or len(kinds) != len(ref):
                            probs.append(f"rejected source gave {kinds[:4]} ({len(kinds)} envelopes) for {len(ref)} errors")
                        else:
                            for ev, (ln, col, msg) in zip(evs, ref):
                                pe = ev["parseError"]
                                if pe["message"] != msg or pe["source"]["uri"] != se["source"]["uri"] or pe["source"]["location"].get("line") != ln:
                                    probs.append("parseError differs from the parser's error")
                    for ev in evs:
                        if "gherkinDocument" in ev:
                            seen_ids += all_ids(ev["gherkinDocument"])
                        if "pickle" in ev:
                            seen_ids += [ev["pickle"]["id"]] + [s["id"] for s in ev["pickle"]["steps"]]
                    if se != before:
                        probs.append("the source event was modified")
                    for p in probs[:2]:
                        bad.append({"options": (ps, pa, pp), "uri": se["source"]["uri"], "problem": p})
                if len(seen_ids) != len(set(seen_ids)):
                    bad.append({"options": (ps, pa, pp), "problem": "ids handed out for one stream are not pairwise distinct"})
                if len(bad) > 4:
                    break
    results.append(dict(name="documents::stream[12 sources (accepted and rejected) x 8 option combinations: order, shapes, uri, errors, id uniqueness]",
                        ok=not bad, size=n, detail=str(bad[0]["problem"]) if bad else None, witness=bad[:2] or None))


def section_total(seed, results, count):
    from gherkin.parser import Parser
    from gherkin.token_matcher import TokenMatcher
    from gherkin.token_scanner import TokenScanner
    from gherkin.errors import CompositeParserException, ParserException
    from gherkin.pickles.compiler import Compiler
    rnd = random.Random(seed)
    atoms = ["Feature:", "Scenario:", "Scenario Outline:", "Examples:", "Background:", "Rule:", "Given ", "And ", "* ", "|", " | a |",
             "@t", "@a b", "#", "# language: fr", "# language: zz", '"""', "```", "\\", "<a>", "\t", " ", " ", " ", "\x0c",
             "\r", "x", "\U0001F600", ":", "||", "| \\", "Fonctionnalité:", "Soit "]
    bad, n = [], 0
    maxratio = 0.0
    for i in range(count):
        nl = rnd.randint(0, 14)
        lines = ["".join(rnd.choice(atoms) for _ in range(rnd.randint(0, 4))) for _ in range(nl)]
        text = rnd.choice(["\n", "\r\n"]).join(lines) + rnd.choice(["", "\n"])
        if os.path.exists(text):
            continue
        n += 1
        calls = [0]
        m = TokenMatcher()
        for name in dir(m):
            if name.startswith("match_"):
                orig = getattr(m, name)

                def wrap(tok, _o=orig):
                    calls[0] += 1
                    return _o(tok)
                setattr(m, name, wrap)
        for stop in (False, True):
            p = Parser()
            p.stop_at_first_error = stop
            try:
                doc = p.parse(TokenScanner(text), m if not stop else TokenMatcher())
                doc["uri"] = "u"
                pk = Compiler().compile(doc)
                if not isinstance(pk, list):
                    bad.append({"text": text, "problem": "compile did not return a list"})
            except CompositeParserException as e:
                if stop or not (1 <= len(e.errors) <= 11) or any("line" not in x.location for x in e.errors):
                    bad.append({"text": text, "problem": f"composite error with {len(e.errors)} errors (stop mode: {stop})"})
            except ParserException as e:
                if not stop or "line" not in e.location:
                    bad.append({"text": text, "problem": f"single ParserException in collecting mode: {e}"})
            except Exception as e:
                bad.append({"text": text, "problem": f"{type(e).__name__} escaped: {e}"})
        nlines = text.count("\n") + 2
        maxratio = max(maxratio, calls[0] / nlines)
        if calls[0] > 40 * nlines:
            bad.append({"text": text, "problem": f"{calls[0]} matcher calls for {nlines} lines"})
        if len(bad) > 3:
            break
    results.append(dict(name=f"documents::total[{count} noisy documents: only typed, located errors (1..11), compile returns a list, matcher calls <= 40 per line (max seen {maxratio:.1f})]",
                        ok=not bad, size=n, detail=str(bad[0]["problem"]) if bad else None, witness=bad[:2] or None))


def main():
    ap = argparse.ArgumentParser()
    ap.add_argument("--count", type=int, default=60)
    ap.add_argument("--sections", default="documents,layout,insertion,history,errors,stream,total")
    a = ap.parse_args()
    seed = int(os.environ.get("VERIF_SEED", "0") or 0)
    rnd = random.Random(seed)
    docs = list(sample_documents(rnd, a.count))
    results = []
    t0 = time.time()
    secs = a.sections.split(",")
    table = {"documents": lambda: section_documents(docs, results), "layout": lambda: section_layout(docs[: max(10, a.count // 3)], results),
             "insertion": lambda: section_blank_comment_insertion(docs[: max(10, a.count // 3)], results),
             "history": lambda: section_history(docs, results), "errors": lambda: section_errors(docs, results),
             "stream": lambda: section_stream(docs, results), "total": lambda: section_total(seed, results, a.count * 10)}
    for s in secs:
        try:
            table[s]()
        except Exception as e:
            import traceback
            results.append(dict(name=f"documents::{s}", ok=False, size=0, detail=f"{type(e).__name__}: {e}",
                                witness={"traceback": traceback.format_exc()[-700:]}))
    for r in results:
        r["bounded"] = True
    print(json.dumps({"results": results, "wall_s": round(time.time() - t0, 2)}, ensure_ascii=False, default=str))


if __name__ == "__main__":
    main()
