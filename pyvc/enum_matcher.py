"""Finite obligations over the shipped dialect table (F, complete enumeration) and bounded call-sequence stand-ins (B)
for python/gherkin/token_matcher.py.  Runs under the repository interpreter on the real code.

  dialects::keywords      every dialect x every listed keyword x role: recognised in that role, keyword reported as the
                          first listed one that matches, title/step text, language, keyword type        (F, exhaustive)
  dialects::keyword-types TokenMatcher(name).keyword_types == kt_spec(table[name]) for all dialects       (F, exhaustive)
  dialects::exclusive     no keyword starts with a sigil or blank; title vs step prefix conflicts         (F, exhaustive)
  dialects::foreign       keywords of other dialects are plain text                                       (F, exhaustive over pairs with a stride)
  regex::language-header  LANGUAGE_RE literal and its meaning on a structured family of header spellings  (F on the family)
  matcher::sequences      call sequences (reset / language header / _change_dialect) up to length 3       (B)
"""
from __future__ import annotations

import itertools
import json
import os
import re
import sys
import time

VERIF = os.path.dirname(os.path.dirname(os.path.abspath(__file__)))
REPO = os.environ.get("VERIF_REPO", "/repo")
sys.path.insert(0, VERIF)
sys.path.insert(0, os.path.join(REPO, "python"))

TITLE_ROLES = [("feature", "FeatureLine"), ("rule", "RuleLine"), ("background", "BackgroundLine"),
               ("scenario", "ScenarioLine"), ("scenarioOutline", "ScenarioLine"), ("examples", "ExamplesLine")]
STEP_ROLES = [("given", "Context"), ("when", "Action"), ("then", "Outcome"), ("and", "Conjunction"), ("but", "Conjunction")]
EXPECTED_LANGUAGE_PATTERN = r"^\s*#\s*language\s*:\s*([a-zA-Z\-_]+)\s*$"


def kt_spec(spec):
    out = {}
    for role, cat in STEP_ROLES:
        for k in spec[role]:
            out.setdefault(k, []).append(cat)
    return out


def step_keywords(spec):
    return spec["given"] + spec["when"] + spec["then"] + spec["and"] + spec["but"]


def mk_token(text, n=3):
    from gherkin.token import Token
    from gherkin.gherkin_line import GherkinLine
    return Token(GherkinLine(text, n), {"line": n})


def res(name, ok, size, detail=None, witness=None):
    return {"name": name, "ok": bool(ok), "size": size, "detail": detail, "witness": witness}


def check_keywords(table):
    from gherkin.token_matcher import TokenMatcher
    bad, n = [], 0
    for lang, spec in table.items():
        m = TokenMatcher(lang)
        kt = kt_spec(spec)
        # title keywords
        for role, ttype in TITLE_ROLES:
            lists = {"ScenarioLine": spec["scenario"] + spec["scenarioOutline"]}.get(ttype, spec[role])
            for kw in spec[role]:
                for indent, title, tail in (("", " a title ", "\n"), ("  \t", "", ""), (" ", "x", " \r\n")):
                    n += 1
                    line = indent + kw + ":" + title + tail
                    tok = mk_token(line)
                    fn = getattr(m, "match_" + ttype)
                    ok = fn(tok)
                    trimmed = line.lstrip()
                    exp_kw = next(k for k in lists if trimmed.startswith(k + ":"))
                    exp_text = trimmed[len(exp_kw) + 1:].strip()
                    if not ok or tok.matched_type != ttype or tok.matched_keyword != exp_kw or tok.matched_text != exp_text \
                            or tok.location.get("column") != len(line) - len(trimmed) + 1 or tok.matched_gherkin_dialect != lang:
                        bad.append({"dialect": lang, "role": role, "line": line, "got": [ok, getattr(tok, "matched_type", None),
                                    getattr(tok, "matched_keyword", None), getattr(tok, "matched_text", None),
                                    tok.location.get("column")], "expected": [True, ttype, exp_kw, exp_text]})
        # step keywords
        sk = step_keywords(spec)
        for role, cat in STEP_ROLES:
            for kw in spec[role]:
                for indent, text, tail in (("    ", "some step text", "\n"), ("", "", ""), ("\t", " x ", "\r\n")):
                    n += 1
                    line = indent + kw + text + tail
                    tok = mk_token(line)
                    ok = m.match_StepLine(tok)
                    trimmed = line.lstrip()
                    exp_kw = next(k for k in sk if trimmed.startswith(k))
                    exp_text = trimmed[len(exp_kw):].strip()
                    cats = kt[exp_kw]
                    exp_type = cats[0] if len(cats) == 1 else "Unknown"
                    if not ok or tok.matched_type != "StepLine" or tok.matched_keyword != exp_kw or tok.matched_text != exp_text \
                            or tok.matched_keyword_type != exp_type or tok.location.get("column") != len(line) - len(trimmed) + 1:
                        bad.append({"dialect": lang, "role": role, "line": line,
                                    "got": [ok, getattr(tok, "matched_keyword", None), getattr(tok, "matched_text", None),
                                            getattr(tok, "matched_keyword_type", None)],
                                    "expected": [True, exp_kw, exp_text, exp_type]})
        if len(bad) > 20:
            break
    return res("dialects::keywords[80 dialects x listed keywords x role x 3 layouts: role, first-listed keyword, text, column, language, keyword type]",
               not bad, n, f"{len(bad)} keyword lines misread" if bad else None, bad[:3] or None)


def check_keyword_types(table):
    from gherkin.token_matcher import TokenMatcher
    from gherkin.errors import NoSuchLanguageException
    bad = []
    for lang, spec in table.items():
        m = TokenMatcher(lang)
        if dict(m.keyword_types) != kt_spec(spec) or m.dialect_name != lang or m.dialect.spec != spec:
            bad.append({"dialect": lang, "what": "state after TokenMatcher(name)"})
    for junk in ("xx-unknown", "", "EN", "en ", "klingon"):
        if junk in table:
            continue
        # An unknown *default* dialect is outside the listed properties (C05 quantifies over the 80 dialects as
        # default and over headers): the constructor must not succeed silently; which exception it raises is not
        # specified (today: TypeError, because NoSuchLanguageException is built with location None -- observation,
        # recorded in DESIGN.md).  The header route (match_Language) is specified and is under contract.
        try:
            TokenMatcher(junk)
            bad.append({"dialect": junk, "what": "unknown default dialect accepted silently"})
        except Exception:
            pass
    return res("dialects::keyword-types[TokenMatcher(name) state == kt_spec(table[name]) for all dialects; unknown names rejected]",
               not bad, len(table) + 5, f"{len(bad)} dialects" if bad else None, bad[:3] or None)


def check_exclusive(table):
    bad, n = [], 0
    for lang, spec in table.items():
        titles = [k for role, _ in TITLE_ROLES for k in spec[role]]
        steps = step_keywords(spec)
        for k in titles + steps:
            n += 1
            if not k or k[0] in "@#|" or k[0].isspace() or k.startswith('"""') or k.startswith("```"):
                bad.append({"dialect": lang, "keyword": k, "what": "starts with a sigil / blank or is empty"})
        for t in titles:
            for s in steps:
                n += 1
                if (t + ":").startswith(s):
                    bad.append({"dialect": lang, "title": t, "step": s, "what": "title line also matches a step keyword"})
        # scenario / examples title lines are never blank, comment or tag lines (kind exclusivity used by look-ahead)
    return res("dialects::exclusive[no keyword starts with '@', '#', '|', a doc string delimiter or a blank; no title keyword + ':' is prefixed by a step keyword]",
               not bad, n, f"{len(bad)} conflicts" if bad else None, bad[:3] or None)


def check_foreign(table):
    """words that are keywords only in other dialects are plain text"""
    from gherkin.token_matcher import TokenMatcher
    bad, n = [], 0
    langs = sorted(table)
    for i, lang in enumerate(langs):
        m = TokenMatcher(lang)
        spec = table[lang]
        own_titles = {k for role, _ in TITLE_ROLES for k in spec[role]}
        own_steps = step_keywords(spec)
        for other in (langs[(i + 7) % len(langs)], langs[(i + 31) % len(langs)]):
            ospec = table[other]
            for role, ttype in TITLE_ROLES:
                for kw in ospec[role]:
                    line = kw + ": t"
                    if any(line.startswith(k + ":") for k in own_titles):
                        continue
                    n += 1
                    for fn in ("match_FeatureLine", "match_RuleLine", "match_BackgroundLine", "match_ScenarioLine", "match_ExamplesLine"):
                        if getattr(m, fn)(mk_token(line)):
                            bad.append({"dialect": lang, "line": line, "matched_as": fn})
            for kw in step_keywords(ospec):
                line = kw + "t"
                if any(line.startswith(k) for k in own_steps):
                    continue
                n += 1
                if m.match_StepLine(mk_token(line)):
                    bad.append({"dialect": lang, "line": line, "matched_as": "match_StepLine"})
    return res("dialects::foreign[keywords of two other dialects per dialect are not recognised]", not bad, n,
               f"{len(bad)} foreign keywords recognised" if bad else None, bad[:3] or None)


def spec_language_header(text):
    """hand-written reading of the language header: blanks, '#', blanks, 'language', blanks, ':', blanks, NAME, blanks."""
    i, n = 0, len(text)

    def ws(i):
        while i < n and text[i].isspace():
            i += 1
        return i
    i = ws(i)
    if i >= n or text[i] != "#":
        return None
    i = ws(i + 1)
    if not text.startswith("language", i):
        return None
    i = ws(i + 8)
    if i >= n or text[i] != ":":
        return None
    i = ws(i + 1)
    j = i
    while j < n and (text[j].isascii() and (text[j].isalpha() or text[j] in "-_")):
        j += 1
    if j == i:
        return None
    name = text[i:j]
    k = ws(j)
    # `$` also matches before a final line feed; \s* has already consumed any white space, so only the end remains
    if k != n:
        return None
    return name


def check_language_regex():
    from gherkin.token_matcher import TokenMatcher
    pat = TokenMatcher.LANGUAGE_RE.pattern
    bad = []
    if pat != EXPECTED_LANGUAGE_PATTERN:
        bad.append({"what": "pattern literal changed", "pattern": pat})
    n = 0
    ws = ["", " ", "\t ", " "]
    names = ["en", "en-lol", "zh_CN", "x", "e n", "én", "en1", "", "EN-", "-"]
    tails = ["", " ", "\n", " \r\n", "x", " # c"]
    for a, b, c, d, e, name, tail, hashch, word, colon in itertools.product(
            ws[:3], ws[:2], ws[:2], ws[:2], ws[:3], names, tails, ["#", "##", ""], ["language", "Language", "languag"], [":", ""]):
        text = a + hashch + b + word + c + colon + d + name + tail
        n += 1
        m = TokenMatcher.LANGUAGE_RE.match(text)
        got = m.group(1) if m else None
        want = spec_language_header(text)
        if got != want:
            bad.append({"text": text, "regex": got, "specified": want})
            if len(bad) > 5:
                break
    return res("regex::language-header[LANGUAGE_RE literal and meaning on a structured family of header spellings]",
               not bad, n, f"{len(bad)} spellings differ" if bad else None, bad[:3] or None)


def check_sequences(table, bound):
    """B: any sequence of operations leaves the matcher in the state a fresh matcher with the same last dialect has;
    reset() restores the default dialect and clears the doc string state."""
    from gherkin.token_matcher import TokenMatcher
    from gherkin.errors import ParserException
    langs = ["en", "fr", "en-lol", "ht"]
    ops = [("reset",)] + [("lang", l) for l in langs + ["zz"]] + [("change", l) for l in langs] + [("doc", '"""'), ("doc", "```")]
    bad, n = [], 0
    for default in ("en", "fr"):
        for seq in itertools.chain.from_iterable(itertools.product(ops, repeat=k) for k in range(1, bound + 1)):
            n += 1
            m = TokenMatcher(default)
            for op in seq:
                try:
                    if op[0] == "reset":
                        m.reset()
                    elif op[0] == "lang":
                        m.match_Language(mk_token("# language: " + op[1] + "\n"))
                    elif op[0] == "change":
                        m._change_dialect(op[1])
                    else:
                        m.match_DocStringSeparator(mk_token("   " + op[1] + "\n"))
                except ParserException:
                    pass
            cur = m.dialect_name
            if cur not in table or dict(m.keyword_types) != kt_spec(table[cur]) or m.dialect.spec != table[cur]:
                bad.append({"default": default, "sequence": seq, "what": "keyword_types / dialect not those of the dialect in force"})
            m.reset()
            f = TokenMatcher(default)
            if (m.dialect_name, dict(m.keyword_types), m._indent_to_remove, m._active_doc_string_separator) != \
                    (f.dialect_name, dict(f.keyword_types), f._indent_to_remove, f._active_doc_string_separator):
                bad.append({"default": default, "sequence": seq, "what": "reset() does not restore the fresh state"})
            if len(bad) > 3:
                break
    return dict(res(f"matcher::sequences[all operation sequences up to length {bound} over reset / language header / _change_dialect / doc string delimiter]",
                    not bad, n, f"{len(bad)} sequences" if bad else None, bad[:2] or None), bounded=True)


def main():
    bound = 3
    if "--bound" in sys.argv:
        bound = int(sys.argv[sys.argv.index("--bound") + 1])
    t0 = time.time()
    with open(os.path.join(REPO, "python", "gherkin", "gherkin-languages.json"), encoding="utf8") as f:
        table = json.load(f)
    results = []
    for fn in (check_keywords, check_keyword_types, check_exclusive, check_foreign):
        try:
            results.append(fn(table))
        except Exception as e:
            results.append(res(fn.__name__, False, 0, f"{type(e).__name__}: {e}", {"exception": repr(e)}))
    try:
        results.append(check_language_regex())
    except Exception as e:
        results.append(res("regex::language-header", False, 0, f"{type(e).__name__}: {e}", {"exception": repr(e)}))
    try:
        results.append(check_sequences(table, bound))
    except Exception as e:
        results.append(dict(res("matcher::sequences", False, 0, f"{type(e).__name__}: {e}", {"exception": repr(e)}), bounded=True))
    print(json.dumps({"results": results, "wall_s": round(time.time() - t0, 2)}, ensure_ascii=False, default=str))


if __name__ == "__main__":
    main()
