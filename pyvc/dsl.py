"""Names used by the sidecar contract files.  The verifier parses the sidecars with `ast` and never imports
them; this module only makes them importable (for linting / the run-time bounded stand-ins)."""
Str, Int, Bool, NoneT, Fn = "Str", "Int", "Bool", "NoneT", "Fn"


def ListOf(x): return ("ListOf", x)
def MutList(x): return ("MutList", x)
def MutDict(x): return ("MutDict", x)
def TupleOf(*x): return ("TupleOf",) + x
def Opt(x): return ("Opt", x)
def Val(x): return ("Val", x)
def Raw(x): return ("Raw", x)
def PyTuple(*x): return ("PyTuple",) + x
def clause(name, fn, serves=()): return (name, fn, tuple(serves))
def raises(exc, when=None, ensures=(), serves=(), only_if=None): return (exc, when, ensures, serves, only_if)
def loop(**kw): return kw
def contract(*a, **k): pass
def klass(*a, **k): pass
def lemma(*a, **k): pass
def contract_family(*a, **k): pass
def record_override(*a, **k): pass
def MapOf(k, v): return ('MapOf', k, v)
def record(*a, **k): pass
