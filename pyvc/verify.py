"""Per-function verification: entry state from the contract, symbolic execution, obligations, instantiation
of quantified facts, discharge."""
from __future__ import annotations

import ast
import json
import os
import time
import traceback

import z3

from . import solve
from .loader import Program
from .sym import (EngineUnsupported, VInt, VBool, VStr, VNone, VSeq, VTuple, VRec, VOpt, VRef, VFunc,
                  ListCell, DictCell, ObjCell, IterCell, Ty, TSeq, TRec, TOpt, T_STR, T_INT, T_BOOL, INT, BOOL, STR,
                  fresh, fresh_val, to_term, from_term, ty_of_val, ival)
from .executor import Executor, State, Outcome, Raised, Obligation
from .registry import Registry, Contract, SpecExecutor


# ---------------------------------------------------------------------------------------------
# quantifier handling: explicit instantiation (hypotheses) / skolemisation (goals)
# ---------------------------------------------------------------------------------------------
def index_terms(formulas, limit=60):
    """Integer terms that occur as sequence indexes / extract bounds in the formulas."""
    seen, out = set(), []
    ids = set()

    def add(t):
        if t.get_id() not in ids and t.sort() == INT:
            ids.add(t.get_id())
            out.append(t)

    def walk(x):
        if x.get_id() in seen:
            return
        seen.add(x.get_id())
        if z3.is_quantifier(x):
            return
        if z3.is_app(x):
            k = x.decl().kind()
            if k == z3.Z3_OP_SEQ_NTH or x.decl().name() in ("seq.nth_i", "seq.nth_u"):
                add(x.arg(1))
            elif k == z3.Z3_OP_SEQ_EXTRACT:
                add(x.arg(1))
                add(x.arg(1) + x.arg(2))
                add(x.arg(1) + x.arg(2) - 1)
            elif k == z3.Z3_OP_SEQ_AT:
                add(x.arg(1))
            elif k == z3.Z3_OP_UNINTERPRETED and x.num_args() >= 1 and x.sort() == INT and \
                    x.decl().name().startswith(("lead_", "trail_", "first_pair", "wit_")):
                add(x)
                add(x - 1)
            for c in x.children():
                walk(c)

    for f in formulas:
        walk(f)
    return out[:limit]


def nth_usage(formulas):
    """seq term id -> list of index terms used with it (ground part of the query)."""
    seen, use = set(), {}

    def walk(x):
        if x.get_id() in seen:
            return
        seen.add(x.get_id())
        if z3.is_quantifier(x):
            return
        if z3.is_app(x) and (x.decl().kind() == z3.Z3_OP_SEQ_NTH or x.decl().name() in ("seq.nth_i", "seq.nth_u")):
            for b in if_branches(x.arg(0)):
                use.setdefault(b.get_id(), []).append(x.arg(1))
        for c in x.children():
            walk(c)
    for f in formulas:
        walk(f)
    return use


def if_branches(t, depth=0):
    """t itself and, when t is an if-then-else of sequences, the sequences in its branches (recursively)."""
    out = [t]
    if depth < 4 and z3.is_app(t) and t.decl().kind() == z3.Z3_OP_ITE:
        out += if_branches(t.arg(1), depth + 1) + if_branches(t.arg(2), depth + 1)
    return out


def seq_classes(formulas, cong_tables=()):
    """union-find of sequence terms asserted equal at the top level of hypotheses"""
    parent = {}

    def find(a):
        while parent.get(a, a) != a:
            a = parent[a]
        return a

    members = {}

    def top(f):
        # equalities anywhere in the boolean structure: merging classes only widens the candidate index terms
        if z3.is_app(f) and f.decl().kind() in (z3.Z3_OP_AND, z3.Z3_OP_OR, z3.Z3_OP_IMPLIES, z3.Z3_OP_NOT):
            for c in f.children():
                top(c)
        elif z3.is_app(f) and f.decl().kind() == z3.Z3_OP_EQ and z3.is_seq(f.arg(0)):
            members[f.arg(0).get_id()] = f.arg(0)
            members[f.arg(1).get_id()] = f.arg(1)
            a, b = find(f.arg(0).get_id()), find(f.arg(1).get_id())
            if a != b:
                parent[a] = b
    for f in formulas:
        top(f)
    # light congruence closure for fold / map applications: same symbol, arguments pairwise identical or in the same
    # class -> same class (their equality follows by congruence; only the candidate index terms are affected)
    if cong_tables:
        apps = []
        for tbl in cong_tables:
            apps.extend(named_apps(tbl, formulas))
        by_decl = {}
        for a in apps:
            if z3.is_seq(a):
                by_decl.setdefault(a.decl().name(), []).append(a)
        for _ in range(2):
            for name, lst in by_decl.items():
                for i in range(len(lst)):
                    for j in range(i + 1, len(lst)):
                        a, b = lst[i], lst[j]
                        if find(a.get_id()) == find(b.get_id()):
                            continue
                        if all(a.arg(k).get_id() == b.arg(k).get_id() or
                               find(a.arg(k).get_id()) == find(b.arg(k).get_id()) for k in range(a.num_args())):
                            members[a.get_id()] = a
                            members[b.get_id()] = b
                            parent[find(a.get_id())] = find(b.get_id())
    find.members = members
    return find


def quant_patterns(q):
    """sequences indexed directly by the bound variable in the body of a single-variable quantifier"""
    pats = set()
    seen = set()

    def has_var(t):
        if z3.is_var(t):
            return True
        return any(has_var(c) for c in t.children())

    def walk(x, depth):
        key = (x.get_id(), depth)
        if key in seen:
            return
        seen.add(key)
        if z3.is_quantifier(x):
            walk(x.body(), depth + x.num_vars())      # de Bruijn: our variable is `depth` binders further out
            return
        if z3.is_app(x) and (x.decl().kind() == z3.Z3_OP_SEQ_NTH or x.decl().name() in ("seq.nth_i", "seq.nth_u")):
            if z3.is_var(x.arg(1)) and z3.get_var_index(x.arg(1)) == depth and not has_var(x.arg(0)):
                pats.add(x.arg(0).get_id())
        for c in x.children():
            walk(c, depth)
    walk(q.body(), 0)
    return pats


def subterm_ids(formulas):
    seen = set()

    def walk(x):
        if x.get_id() in seen:
            return
        seen.add(x.get_id())
        if z3.is_quantifier(x):
            walk(x.body())
            return
        for c in x.children():
            walk(c)
    for f in formulas:
        walk(f)
    return seen


def elim_quant(t, positive: bool, idx, skolems: list):
    """Remove quantifiers from a hypothesis-side formula t (positive=True means t is asserted):
    asserted forall -> conjunction of instances at idx;  asserted exists -> skolem constant."""
    if z3.is_quantifier(t):
        nvars = t.num_vars()
        if t.is_forall() == positive:
            # universally usable: instantiate
            insts = []
            if nvars != 1:
                return t
            cands = idx(t) if callable(idx) else idx
            for j in cands:
                b = z3.substitute_vars(t.body(), j)
                insts.append(elim_quant(b, positive, idx, skolems))
            if not insts:
                return t            # no candidate terms yet: keep the quantifier (a later round may have some)
            return z3.And(*insts) if positive else z3.Or(*insts)
        else:
            # stable skolemisation: one set of skolem constants per (closed) quantifier term
            cache = _SKOLEM_CACHE
            sk = cache.get(t.get_id())
            if sk is None:
                sk = [fresh(t.var_sort(i), "sk_" + t.var_name(i)) for i in range(nvars)]
                cache[t.get_id()] = sk
                _SKOLEM_KEEP.append(t)
                skolems.extend(sk)
            else:
                for c in sk:
                    if not any(c.get_id() == d.get_id() for d in skolems):
                        skolems.append(c)
            b = z3.substitute_vars(t.body(), *reversed(sk))
            return elim_quant(b, positive, idx, skolems)
    if z3.is_app(t) and t.sort() == BOOL:
        k = t.decl().kind()
        if k == z3.Z3_OP_AND or k == z3.Z3_OP_OR:
            cs = [elim_quant(c, positive, idx, skolems) for c in t.children()]
            return z3.And(*cs) if k == z3.Z3_OP_AND else z3.Or(*cs)
        if k == z3.Z3_OP_NOT:
            return z3.Not(elim_quant(t.arg(0), not positive, idx, skolems))
        if k == z3.Z3_OP_IMPLIES:
            return z3.Implies(elim_quant(t.arg(0), not positive, idx, skolems),
                              elim_quant(t.arg(1), positive, idx, skolems))
    return t


def weaken(t, positive):
    """Replace the quantified subformulas of an asserted formula by true (positive position) / false (negative)."""
    if z3.is_quantifier(t):
        return z3.BoolVal(positive)
    if z3.is_app(t) and t.sort() == BOOL:
        k = t.decl().kind()
        if k in (z3.Z3_OP_AND, z3.Z3_OP_OR):
            cs = [weaken(c, positive) for c in t.children()]
            return z3.And(*cs) if k == z3.Z3_OP_AND else z3.Or(*cs)
        if k == z3.Z3_OP_NOT:
            return z3.Not(weaken(t.arg(0), not positive))
        if k == z3.Z3_OP_IMPLIES:
            return z3.Implies(weaken(t.arg(0), not positive), weaken(t.arg(1), positive))
        if has_quant(t):
            return z3.BoolVal(positive)
    return t


_SKOLEM_CACHE = {}
_SKOLEM_KEEP = []


def has_quant(t):
    seen = set()

    def walk(x):
        if x.get_id() in seen:
            return False
        seen.add(x.get_id())
        if z3.is_quantifier(x):
            return True
        return any(walk(c) for c in x.children())
    return walk(t)


class TermIndex:
    """Incremental index over the ground part of a query (each subterm is visited once, however many rounds)."""

    NTH_NAMES = ("seq.nth_i", "seq.nth_u")

    def __init__(self, reg):
        self.reg = reg
        self.seen = set()
        self.usage = {}            # id of a sequence term -> [index terms used with it]
        self.idx, self.idx_ids = [], set()
        self.fold_apps, self.map_apps = [], []
        self.new_nth = []          # (base, k) pairs not yet given to the lemma generator
        self.all_nth = []          # every (base, k) pair seen
        self.seq_eqs = []          # sequence equalities anywhere in the boolean structure
        self.new_seq_eqs = []
        self.top_eqs = []          # sequence equalities at the top level (asserted)
        self.parent = {}
        self.members = {}
        self.app_args = {}         # id of fold/map app -> tuple of arg ids

    # -- union-find over sequence terms
    def find(self, a):
        p = self.parent
        while p.get(a, a) != a:
            a = p[a]
        return a

    def union(self, a, b):
        ra, rb = self.find(a), self.find(b)
        if ra != rb:
            self.parent[ra] = rb

    def add_idx(self, t):
        if len(self.idx) >= MAX_INDEX_TERMS:
            return
        if t.get_id() not in self.idx_ids and t.sort() == INT:
            self.idx_ids.add(t.get_id())
            self.idx.append(t)

    def add(self, f, top=True):
        if top:
            self._top(f)
        stack = [f]
        seen = self.seen
        fold_defs, map_defs = self.reg.fold_defs, self.reg.map_defs
        while stack:
            x = stack.pop()
            xid = x.get_id()
            if xid in seen:
                continue
            seen.add(xid)
            if z3.is_quantifier(x) or not z3.is_app(x):
                continue
            n = x.num_args()
            if n == 0:
                continue
            d = x.decl()
            k = d.kind()
            if k == z3.Z3_OP_SEQ_NTH or (k == z3.Z3_OP_UNINTERPRETED is False and False):
                pass
            name = None
            if k == z3.Z3_OP_SEQ_NTH:
                base, ix = x.arg(0), x.arg(1)
                self.add_idx(ix)
                for b in if_branches(base):
                    self.usage.setdefault(b.get_id(), []).append(ix)
                self.new_nth.append((base, ix))
                self.all_nth.append((base, ix))
            elif k == z3.Z3_OP_SEQ_EXTRACT:
                a1, a2 = x.arg(1), x.arg(2)
                self.add_idx(a1)
                self.add_idx(a1 + a2)
                self.add_idx(a1 + a2 - 1)
            elif k == z3.Z3_OP_SEQ_AT:
                self.add_idx(x.arg(1))
            elif k == z3.Z3_OP_SEQ_LENGTH:
                self.add_idx(x)          # lengths are natural witnesses for existential index goals
            elif k == z3.Z3_OP_EQ:
                a0 = x.arg(0)
                if z3.is_seq(a0):
                    b0 = x.arg(1)
                    self.members[a0.get_id()] = a0
                    self.members[b0.get_id()] = b0
                    self.union(a0.get_id(), b0.get_id())
                    self.seq_eqs.append((a0, b0))
            elif k == z3.Z3_OP_UNINTERPRETED:
                name = d.name()
                if name in fold_defs:
                    self.fold_apps.append(x)
                    self.app_args[xid] = tuple(x.arg(i).get_id() for i in range(n))
                elif name in map_defs:
                    self.map_apps.append(x)
                    self.app_args[xid] = tuple(x.arg(i).get_id() for i in range(n))
                elif x.sort() == INT and name.startswith(("lead_", "trail_", "first_pair", "wit_")):
                    self.add_idx(x)
                    self.add_idx(x - 1)
            elif name is None and k not in (z3.Z3_OP_AND, z3.Z3_OP_OR, z3.Z3_OP_NOT, z3.Z3_OP_IMPLIES, z3.Z3_OP_ITE):
                nm = d.name()
                if nm in self.NTH_NAMES:
                    base, ix = x.arg(0), x.arg(1)
                    self.add_idx(ix)
                    for b in if_branches(base):
                        self.usage.setdefault(b.get_id(), []).append(ix)
                    self.new_nth.append((base, ix))
                    self.all_nth.append((base, ix))
            for i in range(n):
                stack.append(x.arg(i))

    def _top(self, f):
        if z3.is_app(f):
            k = f.decl().kind()
            if k == z3.Z3_OP_AND:
                for i in range(f.num_args()):
                    self._top(f.arg(i))
            elif k == z3.Z3_OP_EQ and z3.is_seq(f.arg(0)) and f.arg(0).sort() != STR:
                self.top_eqs.append((f.arg(0), f.arg(1)))

    def congruence(self):
        """same fold/map symbol, arguments pairwise identical or in the same class -> same class"""
        by_decl = {}
        for a in self.fold_apps + self.map_apps:
            if z3.is_seq(a):
                by_decl.setdefault(a.decl().name(), []).append(a)
        for _ in range(2):
            for lst in by_decl.values():
                for i in range(len(lst)):
                    ai = self.app_args[lst[i].get_id()]
                    for j in range(i + 1, len(lst)):
                        if self.find(lst[i].get_id()) == self.find(lst[j].get_id()):
                            continue
                        bj = self.app_args[lst[j].get_id()]
                        if all(x == y or self.find(x) == self.find(y) for x, y in zip(ai, bj)):
                            self.members[lst[i].get_id()] = lst[i]
                            self.members[lst[j].get_id()] = lst[j]
                            self.union(lst[i].get_id(), lst[j].get_id())

    def deep_congruence(self):
        """Congruence through datatype constructors / accessors and uninterpreted applications: two indexed sequences
        (or fold / map applications) whose structure is equal up to the known sequence equalities are put in one class.
        Needed when a fold's initial state is a tuple built from a sequence that is only *equal* (by an invariant) to
        the one in the callee's contract:  fold(xs, n, (empty, bg), ...)  vs  fold(xs, n, (empty, flat(i)[1]), ...)."""
        terms = {}
        for a in self.fold_apps + self.map_apps:
            terms[a.get_id()] = a
        for (base, _ix) in self.all_nth:
            for b in if_branches(base):
                terms[b.get_id()] = b
        for _ in range(2):
            memo = {}

            def key(t, depth=0):
                tid = t.get_id()
                mk = (tid, depth > 0)
                if mk in memo:
                    return memo[mk]
                r = self.find(tid)
                if depth > 6 or not z3.is_app(t) or t.num_args() == 0 or (depth > 0 and z3.is_seq(t)):
                    # a sequence-valued argument is identified by its equality class (the class representative may
                    # itself be a structured term, so the structure must not be preferred here)
                    k = ("c", r)
                else:
                    kind = t.decl().kind()
                    if kind in (z3.Z3_OP_UNINTERPRETED, z3.Z3_OP_DT_CONSTRUCTOR, z3.Z3_OP_DT_ACCESSOR, z3.Z3_OP_SEQ_CONCAT):
                        k = ("a", t.decl().name(), tuple(key(t.arg(i), depth + 1) for i in range(t.num_args())))
                    else:
                        k = ("c", r)
                memo[mk] = k
                return k
            groups = {}
            for tid, t in terms.items():
                k = key(t)
                if k[0] == "a":
                    groups.setdefault(k, []).append(t)
            changed = False
            if os.environ.get("PYVC_DEBUG_CONG"):
                for tid_, t_ in terms.items():
                    if "fold_rule_step_0" in str(t_)[:70]:
                        print("   TERM", tid_, t_.decl().name(), str(key(t_))[:60], "nth-bases:", sum(1 for b_, _ in self.all_nth if b_.get_id() == tid_))
                print("deep_congruence: terms", len(terms), "groups", len(groups), "multi", sum(1 for l in groups.values() if len(l) > 1))
                for k, l in groups.items():
                    if k[1] == "fold_rule_step_0" or (k[1].endswith("_i0") and "fold_rule_step_0" in str(k)[:80]):
                        print("   KEY size", len(l), [x.get_id() for x in l], [self.find(x.get_id()) for x in l], str(k)[:200])
            for lst in groups.values():
                for t in lst[1:]:
                    if self.find(t.get_id()) != self.find(lst[0].get_id()):
                        self.members[t.get_id()] = t
                        self.members[lst[0].get_id()] = lst[0]
                        self.union(t.get_id(), lst[0].get_id())
                        changed = True
            if not changed:
                break

    def by_class(self):
        out = {}
        for sid, terms in self.usage.items():
            out.setdefault(self.find(sid), []).extend(terms)
        return out


def prepare_query(reg: Registry, hyps, goal, extra_terms=(), level=0):
    """Return (ground hypotheses, ground goal).  level 0: quantified hypotheses, map/split facts and fold
    definitions are instantiated; level 1 additionally instantiates the character-class run facts
    (forall-parts of lead/trail/has) at the index terms.

    Instantiation is E-matching-lite: a quantified fact whose body indexes sequence S with its bound variable is
    instantiated at the index terms used with S (or a sequence asserted equal to S) in the ground part of the
    query, plus the skolem constants of the goal.  Instances, structural sequence lemmas and fold unfoldings create
    new ground terms, so the process is iterated (INST_ROUNDS)."""
    hy = [h for _, h in hyps]
    sk = []
    g = goal
    if has_quant(g):
        g = z3.Not(elim_quant(z3.Not(g), True, [], sk))     # skolemises the universally quantified goal parts
    qhyps = [h for h in hy if has_quant(h)]
    ground0 = [h for h in hy if not has_quant(h)]
    derived = []            # instances, lemmas, unfoldings (deduplicated by term id)
    derived_ids = set()
    done_fold = set()
    lemma_done = set()
    ix = TermIndex(reg)
    for h in ground0:
        ix.add(h)
    qgoal = has_quant(g)
    if not qgoal:
        ix.add(g, top=False)
    # anchors for fold unfolding: applications occurring in the query itself (incl. quantified hypotheses)
    anchor_ix = TermIndex(reg)
    for h in ground0 + qhyps + [g]:
        anchor_ix.add(h, top=False)
    fold_anchors = list(anchor_ix.fold_apps)
    del anchor_ix

    def add(t):
        if len(derived) >= MAX_DERIVED:
            return False
        if has_quant(t):
            t = weaken(t, True)  # uninstantiated quantified parts of a hypothesis are dropped (sound weakening)
        if t.get_id() not in derived_ids:
            derived_ids.add(t.get_id())
            derived.append(t)
            ix.add(t)
            return True
        return False

    sk_int = [t for t in sk if t.sort() == INT]
    for rnd in range(INST_ROUNDS if level == 0 else min(INST_ROUNDS, 3)):
        ix.congruence()
        ix.deep_congruence()
        find = ix.find
        by_class = ix.by_class()
        usage = ix.usage
        idx = ix.idx + sk_int + list(extra_terms) + [ival(0)]

        def select(q):
            pats = quant_patterns(q)
            if not pats:
                return idx
            out, ids = [], set()
            for p in pats:
                for t in by_class.get(find(p), []):
                    if t.get_id() not in ids:
                        ids.add(t.get_id())
                        out.append(t)
            for t in list(sk) + list(extra_terms):
                if t.sort() == INT and t.get_id() not in ids:
                    ids.add(t.get_id())
                    out.append(t)
            return out[:80]

        changed = False
        for h in qhyps:
            inst = elim_quant(h, True, select, sk)
            changed |= add(inst)
        if qgoal:
            g2 = z3.Not(elim_quant(z3.Not(g), True, select, sk))
            if not has_quant(g2):
                g, qgoal = g2, False
                ix.add(g, top=False)
                changed = True
        sk_int = [t for t in sk if t.sort() == INT]
        ids = ix.seen
        for qf in reg.qfacts:
            if level == 0 and type(qf).__name__.startswith("RunFact"):
                continue
            anchor = getattr(qf, "mt", None)
            if anchor is None:
                anchor = getattr(qf, "items", None)
            if anchor is None:
                anchor = qf.s
            if anchor.get_id() not in ids:
                continue
            cands = idx
            if type(qf).__name__ == "GroundFact":
                changed |= add(qf.fact)
                continue
            if type(qf).__name__ in ("MapFact", "RevFact"):
                cands, cids = [], set()
                for sid in (qf.mt.get_id(), qf.seq.get_id()):
                    for t in by_class.get(find(sid), []) + usage.get(sid, []):
                        if t.get_id() not in cids:
                            cids.add(t.get_id())
                            cands.append(t)
                for t in sk_int:
                    if t.get_id() not in cids:
                        cids.add(t.get_id())
                        cands.append(t)
            for j in cands[:80]:
                changed |= add(qf.instance(j))
        # definitions of comprehension maps at their applications
        for a in list(ix.map_apps):
            md = reg.map_defs[a.decl().name()]
            changed |= add(md.length(a))
            cands, cids = [], set()
            for sid in (a.get_id(), a.arg(0).get_id()):
                for t in by_class.get(find(sid), []) + usage.get(sid, []):
                    if t.get_id() not in cids:
                        cids.add(t.get_id())
                        cands.append(t)
            for t in sk_int:
                if t.get_id() not in cids:
                    cids.add(t.get_id())
                    cands.append(t)
            for j in cands[:60]:
                key = ("map", a.get_id(), j.get_id())
                if key in lemma_done:
                    continue
                lemma_done.add(key)
                changed |= add(md.instance(a, j))
        # structural lemmas for the nth terms seen since the last round
        pending, ix.new_nth = ix.new_nth, []
        for base, k_ in pending:
            for lem in seq_lemmas_for(base, k_, lemma_done):
                changed |= add(lem)
        # congruence helpers: for an asserted sequence equality a == b and an index k used with that class:
        # a[k] == b[k], and nth distributed over if-then-else sequences (valid consequences; the sequence solver
        # is slow to find them on its own -- measured)
        for a_, b_ in list(ix.top_eqs):
            ks = by_class.get(find(a_.get_id()), [])[:24]
            for k_ in ks:
                key = ("cong", a_.get_id(), b_.get_id(), k_.get_id())
                if key in lemma_done:
                    continue
                lemma_done.add(key)
                changed |= add(a_[k_] == b_[k_])
                for t_ in (a_, b_):
                    lifted = lift_nth_over_ite(t_, k_)
                    if lifted is not None:
                        changed |= add(t_[k_] == lifted)
        # structured members (concat / extract / unit) of a class get the lemmas for every index used with the class
        for mid, m in list(ix.members.items()):
            for b in if_branches(m):
                if z3.is_app(b) and b.decl().kind() in (z3.Z3_OP_SEQ_CONCAT, z3.Z3_OP_SEQ_EXTRACT, z3.Z3_OP_SEQ_UNIT):
                    for k in by_class.get(find(mid), [])[:40]:
                        for lem in seq_lemmas_for(b, k, lemma_done):
                            changed |= add(lem)
        if reg.fold_defs and rnd < FOLD_UNFOLD_ROUNDS:
            for a in list(ix.fold_apps):
                if a.get_id() in done_fold:
                    continue
                done_fold.add(a.get_id())
                # base case, for every application: k <= 0  ==>  F(xs, k, init, ..) == init
                if a.num_args() >= 3 and a.arg(2).sort() == a.sort():
                    changed |= add(z3.Implies(a.arg(1) <= 0, a == a.arg(2)))
                if not worth_unfolding(a, fold_anchors):
                    continue
                # the application itself is kept syntactically as it occurs in the query (term identity matters for
                # the instantiation heuristics); only the right-hand side is simplified
                rhs = reg.fold_defs[a.decl().name()].rhs(a)
                srhs = renth(z3.simplify(rhs))
                changed |= add(a == srhs)
                srt = a.sort()
                if srt.kind() == z3.Z3_DATATYPE_SORT and srt.num_constructors() == 1:
                    # tuple-valued fold state: component-wise equations (sequence components take part in the
                    # sequence lemmas / instantiation heuristics only as sequence-sorted equalities)
                    for ai in range(srt.constructor(0).arity()):
                        acc = srt.accessor(0, ai)
                        changed |= add(acc(a) == renth(z3.simplify(project(srt, ai, srhs))))
        if not changed:
            break
    if qgoal:
        g = z3.Not(elim_quant(z3.Not(g), True, select, sk))
    return ground0 + derived, g


def seq_lemmas_for(base, k, done):
    """nth(concat(a, b..), k) / nth(unit(c), 0) / nth(extract(s, a, l), k) / through if-then-else: valid facts of the
    theory of sequences that the solvers do not derive reliably on their own (measured, DESIGN 3.4)."""
    out = []

    def lemma_for(base, k, depth=0):
        if not z3.is_app(base) or depth > 6:
            return
        kind = base.decl().kind()
        if kind == z3.Z3_OP_ITE:
            lemma_for(base.arg(1), k, depth + 1)
            lemma_for(base.arg(2), k, depth + 1)
            return
        if kind not in (z3.Z3_OP_SEQ_CONCAT, z3.Z3_OP_SEQ_UNIT, z3.Z3_OP_SEQ_EXTRACT):
            return
        key = (base.get_id(), k.get_id())
        if key in done:
            return
        done.add(key)
        if kind == z3.Z3_OP_SEQ_CONCAT:
            off = ival(0)
            for i in range(base.num_args()):
                p = base.arg(i)
                ln = z3.Length(p)
                out.append(z3.Implies(z3.And(k >= off, k < off + ln), base[k] == p[k - off]))
                lemma_for(p, z3.simplify(k - off), depth + 1)
                off = off + ln
        elif kind == z3.Z3_OP_SEQ_UNIT:
            out.append(z3.Implies(k == 0, base[k] == base.arg(0)))
        elif kind == z3.Z3_OP_SEQ_EXTRACT:
            s0, a, l = base.arg(0), base.arg(1), base.arg(2)
            out.append(z3.Implies(z3.And(k >= 0, k < z3.Length(base), a >= 0), base[k] == s0[a + k]))
    lemma_for(base, k)
    return out


INST_ROUNDS = int(os.environ.get("PYVC_INST_ROUNDS", "7"))
MAX_INDEX_TERMS = 90
MAX_DERIVED = 1500
LIGHT_LABELS = ("requires:", "cinv:", "branch", "loop-index", "loop-iter", "loop-exit", "obl:", "ax:", "assume",
                "raises", "no-raise", "map-len")
FOLD_UNFOLD_ROUNDS = 3
def _load_hints():
    p = os.path.join(os.path.dirname(os.path.dirname(os.path.abspath(__file__))), "proof_hints.json")
    try:
        with open(p) as f:
            return json.load(f)
    except Exception:
        return {}


def _hint_key(name):
    return name


HINTS = _load_hints()
OB_BUDGET_S = int(os.environ.get('PYVC_OB_BUDGET_S', '75'))
QUICK_ATTEMPT_MS = int(os.environ.get('PYVC_QUICK_MS', '10000'))


def seq_lemmas(formulas, done=None):
    """nth(concat(a, b..), k) / nth(unit(c), 0) / nth(extract(s, a, l), k): valid facts of the theory of sequences
    that the solvers do not derive reliably on their own (measured, DESIGN 3.4)."""
    seen, out = set(), []
    if done is None:
        done = set()

    def lemma_for(base, k):
        if not z3.is_app(base):
            return
        kind = base.decl().kind()
        if kind == z3.Z3_OP_ITE:
            lemma_for(base.arg(1), k)
            lemma_for(base.arg(2), k)
            return
        key = (base.get_id(), k.get_id())
        if key in done:
            return
        done.add(key)
        if kind == z3.Z3_OP_SEQ_CONCAT:
            parts = base.children()
            off = ival(0)
            for p in parts:
                ln = z3.Length(p)
                out.append(z3.Implies(z3.And(k >= off, k < off + ln), base[k] == p[k - off]))
                lemma_for(p, z3.simplify(k - off))
                off = off + ln
        elif kind == z3.Z3_OP_SEQ_UNIT:
            out.append(z3.Implies(k == 0, base[k] == base.arg(0)))
        elif kind == z3.Z3_OP_SEQ_EXTRACT:
            s0, a, l = base.arg(0), base.arg(1), base.arg(2)
            out.append(z3.Implies(z3.And(k >= 0, k < z3.Length(base), a >= 0), base[k] == s0[a + k]))

    def walk(x):
        if x.get_id() in seen:
            return
        seen.add(x.get_id())
        if z3.is_quantifier(x):
            return
        if z3.is_app(x) and (x.decl().kind() == z3.Z3_OP_SEQ_NTH or x.decl().name() in ("seq.nth_i", "seq.nth_u")):
            lemma_for(x.arg(0), x.arg(1))
        for c in x.children():
            walk(c)
    for f in formulas:
        walk(f)
    return out


def project(srt, ai, t):
    """accessor ai of the single-constructor datatype srt applied to t, pushed through if-then-else and constructors"""
    if z3.is_app(t):
        if t.decl().kind() == z3.Z3_OP_ITE:
            return z3.If(t.arg(0), project(srt, ai, t.arg(1)), project(srt, ai, t.arg(2)))
        if t.decl().name() == srt.constructor(0).name() and t.num_args() == srt.constructor(0).arity():
            return t.arg(ai)
    return srt.accessor(0, ai)(t)


def top_level_seq_equalities(formulas):
    out = []

    def top(f):
        if z3.is_app(f) and f.decl().kind() == z3.Z3_OP_AND:
            for c in f.children():
                top(c)
        elif z3.is_app(f) and f.decl().kind() == z3.Z3_OP_EQ and z3.is_seq(f.arg(0)) and f.arg(0).sort() != STR:
            out.append((f.arg(0), f.arg(1)))
    for f in formulas:
        top(f)
    return out


def lift_nth_over_ite(t, k, depth=0):
    if depth < 4 and z3.is_app(t) and t.decl().kind() == z3.Z3_OP_ITE:
        a = lift_nth_over_ite(t.arg(1), k, depth + 1)
        b = lift_nth_over_ite(t.arg(2), k, depth + 1)
        return z3.If(t.arg(0), a if a is not None else t.arg(1)[k], b if b is not None else t.arg(2)[k])
    return None


def worth_unfolding(app, anchors):
    """Unfold F(.., k, ..) only towards an application that occurs in the query itself: some anchor F(.., k', ..) with
    the same other arguments and k - k' a small positive numeral; or k a small numeral (base cases)."""
    k = z3.simplify(app.arg(1))
    if z3.is_int_value(k):
        return k.as_long() <= 3
    ids = {b.get_id() for b in anchors}
    if app.get_id() in ids:
        # an application of the query itself: unfold once when the query relates it to another application of the
        # same fold (the index difference may be symbolic, e.g. a skolem index against the loop index)
        for b in anchors:
            if b.get_id() != app.get_id() and b.decl().name() == app.decl().name() and all(
                    b.arg(i).get_id() == app.arg(i).get_id() for i in range(app.num_args()) if i != 1):
                d = z3.simplify(app.arg(1) - b.arg(1))
                if not (z3.is_int_value(d) and d.as_long() < 0):
                    return True
    for b in anchors:
        if b.decl().name() != app.decl().name() or b.get_id() == app.get_id():
            continue
        if any(b.arg(i).get_id() != app.arg(i).get_id() for i in range(app.num_args()) if i != 1):
            continue
        d = z3.simplify(app.arg(1) - b.arg(1))
        if z3.is_int_value(d) and 0 < d.as_long() <= 3:
            return True
    return False


def named_apps(table, formulas):
    seen, out = set(), []

    def walk(x):
        if x.get_id() in seen:
            return
        seen.add(x.get_id())
        if z3.is_quantifier(x):
            return
        if z3.is_app(x) and x.decl().kind() == z3.Z3_OP_UNINTERPRETED and x.decl().name() in table:
            out.append(x)
        for c in x.children():
            walk(c)
    for f in formulas:
        walk(f)
    return out


def renth(t):
    """Undo z3.simplify's expansion of seq.nth into ite(in-range, nth_i, nth_u): keeps index terms syntactically shared."""
    cache = {}

    def go(x):
        if x.get_id() in cache:
            return cache[x.get_id()]
        r = x
        if z3.is_app(x) and x.num_args() > 0:
            if x.decl().kind() == z3.Z3_OP_ITE and z3.is_app(x.arg(1)) and z3.is_app(x.arg(2)) \
                    and {x.arg(1).decl().name(), x.arg(2).decl().name()} == {"seq.nth_i", "seq.nth_u"} \
                    and x.arg(1).arg(0).get_id() == x.arg(2).arg(0).get_id() \
                    and x.arg(1).arg(1).get_id() == x.arg(2).arg(1).get_id():
                r = go(x.arg(1).arg(0))[go(x.arg(1).arg(1))]
            else:
                kids = [go(c) for c in x.children()]
                if any(k.get_id() != c.get_id() for k, c in zip(kids, x.children())):
                    try:
                        r = x.decl()(*kids)
                    except Exception:
                        r = x
        elif z3.is_quantifier(x):
            r = x
        cache[x.get_id()] = r
        return r
    return go(t)


def fold_apps(reg, formulas):
    seen, out = set(), []

    def walk(x):
        if x.get_id() in seen:
            return
        seen.add(x.get_id())
        if z3.is_quantifier(x):
            return
        if z3.is_app(x) and x.decl().kind() == z3.Z3_OP_UNINTERPRETED and x.decl().name() in reg.fold_defs:
            out.append(x)
        for c in x.children():
            walk(c)
    for f in formulas:
        walk(f)
    return out


# ---------------------------------------------------------------------------------------------
class FunctionVerifier:
    def __init__(self, prog: Program, reg: Registry, qualname: str):
        self.prog, self.reg, self.qual = prog, reg, qualname
        self.contract: Contract = reg.contracts[qualname]
        self.fi = prog.func(qualname.split("@")[0].split("#")[0])

    def variants(self):
        c = self.contract
        return c.variants or [{}]

    def run(self):
        """Symbolically execute under each variant and return (obligations, info)."""
        obligations = []
        info = {"function": self.qual, "variants": 0, "paths": 0, "assumptions": []}
        self.reg.dict_hint = self.contract.dict_hint or None
        if self.reg.dict_hint in ("Envelope",):
            self.reg.envelope_type()
        if self.reg.dict_hint in ("RuleChild",):
            self.reg.rule_child_record()
        self.reg.cur_func = self.qual.split("@")[0].split("#")[0]
        for vi, var in enumerate(self.variants()):
            ex = Executor(self.prog, self.reg, self.qual.split("@")[0].split("#")[0])
            ex.contract_name = self.qual
            obs = self.run_variant(ex, var, vi)
            obligations.extend(obs)
            info["variants"] += 1
            info["paths"] += ex.npaths
            info["assumptions"].extend(sorted(ex.assumptions_used))
        return obligations, info

    def entry_state(self, ex: Executor, var: dict):
        c = self.contract
        st = State()
        fnode = self.fi.node
        params = [a.arg for a in fnode.args.args]
        types = dict(c.args)
        types.update(var)
        env = {}
        for p in params:
            tx = types.get(p)
            if tx is None:
                ann = next(a.annotation for a in fnode.args.args if a.arg == p)
                ty = self.reg.type_from_annotation(ann, self.fi.module)
                if ty is None:
                    raise EngineUnsupported(f"parameter {p} of {self.qual} has no declared type")
            else:
                ty = self.reg.parse_type(tx)
            if isinstance(ty, tuple) and ty[0] == "opt":
                raise EngineUnsupported("optional heap parameter: use variants")
            env[p] = self.reg.fresh_of(ex, st, ty, p, "param:" + p)
        st.env = env
        if self.fi.cls:
            st.ghost["$cls"] = self.fi.cls
        for cl in c.requires:
            t = self.reg.spec_eval(ex, st, cl.fn, self.reg.lambda_env(cl.fn, env))
            st.assume(ex.truth(st, t), "requires:" + cl.name)
        st.pre_heap = dict(st.heap)
        st.ghost["$params"] = dict(env)
        return st, env

    def run_variant(self, ex: Executor, var: dict, vi: int):
        c = self.contract
        st, env = self.entry_state(ex, var)
        vtag = f"v{vi}:" if len(self.variants()) > 1 else ""
        # vacuity guard: the precondition must be satisfiable
        if solve.quick_unsat([h for _, h in st.pc], timeout_ms=2000):
            raise EngineUnsupported(f"precondition of {self.qual} (variant {vi}) is unsatisfiable: vacuous contract")
        pre_heap = dict(st.heap)
        pre_env = dict(env)
        if c.generator:
            st.env["_yielded"] = st.alloc(ListCell(None, None, []))
            rt = self.reg.parse_type(c.returns)
            if isinstance(rt, TSeq):
                st.set_cell(st.env["_yielded"], ListCell(rt.elem, z3.Empty(rt.sort())))
        ex.cur_serves = ["C01"]
        results = ex.exec_block(st, self.fi.node.body)
        # vacuity guard: at least one path through the body must be feasible (otherwise every obligation of the
        # function is discharged from a contradiction among preconditions, class invariants and assumed callee contracts)
        if results and all(solve.quick_unsat([h for _, h in s.pc], timeout_ms=1500) for s, _oc in results[:40]) \
                and len(results) <= 40:
            raise EngineUnsupported(f"no feasible path through {self.qual} (variant {vi}): vacuous verification")
        for s, oc in results:
            if oc.kind in (Outcome.NORMAL, Outcome.RETURN):
                result = oc.value if oc.kind == Outcome.RETURN else VNone
                if c.generator:
                    result = s.env["_yielded"]
                self.check_post(ex, s, pre_env, pre_heap, result, vtag)
            elif oc.kind == Outcome.RAISE:
                self.check_xpost(ex, s, pre_env, pre_heap, oc.value, vtag)
            else:
                raise EngineUnsupported("break/continue at function level")
        # tag obligations with the variant
        for ob in ex.obligations:
            if vtag:
                ob.name = ob.name.replace("::", "::" + vtag, 1)
        return ex.obligations

    def check_post(self, ex, s: State, env, pre_heap, result, vtag):
        c = self.contract
        renv = dict(env)
        renv["result"] = result
        # declared return type must match (None vs value)
        for cl in c.ensures:
            try:
                t = self.reg.spec_eval(ex, s, cl.fn, self.reg.lambda_env(cl.fn, renv), pre_heap=pre_heap)
                goal = ex.truth(s, t)
            except EngineUnsupported as e:
                # a clause that cannot be evaluated on this path (e.g. it reads a field the code no longer sets) is not a
                # refutation: the function is outside the verifier's reach and its bounded stand-in decides
                raise EngineUnsupported(f"postcondition {cl.name} not evaluable on a path: {e}")
            ex.oblige(s, f"post[{cl.name}]", goal, kind="post", serves=cl.serves, clause=cl.name, assume_after=False)
        if c.result_is is not None:
            try:
                want = self.reg.spec_eval(ex, _with_heap(s, pre_heap), c.result_is, self.reg.lambda_env(c.result_is, env))
                goal = ex.eq(s, result, want)
            except EngineUnsupported as e:
                raise EngineUnsupported(f"result specification not evaluable: {e}")
            ex.oblige(s, "post[result]", goal, kind="post", serves=c.serves or ["C01"], clause="result",
                      assume_after=False)
        # raise clauses with a condition: on a normal return the condition must be false
        for rc in c.raises:
            if rc.when is not None:
                w = ex.truth(s, self.reg.spec_eval(ex, _with_heap(s, pre_heap), rc.when, self.reg.lambda_env(rc.when, env)))
                ex.oblige(s, f"post[must-raise:{rc.exc}]", z3.Not(w), kind="post", serves=rc.serves,
                          clause="raises:" + rc.exc, assume_after=False)
        self.check_frame(ex, s, env, pre_heap, vtag)

    def check_xpost(self, ex, s: State, env, pre_heap, exc, vtag):
        c = self.contract
        cls = ex.exc_class(s, exc)
        matching = [rc for rc in c.raises if self.prog.is_subclass(cls, rc.exc) or cls == rc.exc]
        if not matching:
            ex.oblige(s, f"xpost[undeclared exception {cls}]", z3.BoolVal(False), kind="xpost", serves=["C01"],
                      assume_after=False)
            return
        rc = matching[0]
        xenv = dict(env)
        xenv["exc"] = exc
        if rc.only_if is not None:
            w = ex.truth(s, self.reg.spec_eval(ex, _with_heap(s, pre_heap), rc.only_if, self.reg.lambda_env(rc.only_if, env)))
            ex.oblige(s, f"xpost[{rc.exc}:only-if]", w, kind="xpost", serves=rc.serves, clause="raises:" + rc.exc,
                      assume_after=False)
        if rc.when is not None:
            w = ex.truth(s, self.reg.spec_eval(ex, _with_heap(s, pre_heap), rc.when, self.reg.lambda_env(rc.when, env)))
            ex.oblige(s, f"xpost[{rc.exc}:when]", w, kind="xpost", serves=rc.serves, clause="raises:" + rc.exc,
                      assume_after=False)
        for cl in rc.ensures:
            try:
                t = self.reg.spec_eval(ex, s, cl.fn, self.reg.lambda_env(cl.fn, xenv), pre_heap=pre_heap)
                goal = ex.truth(s, t)
            except EngineUnsupported as e:
                goal = z3.BoolVal(False)
            ex.oblige(s, f"xpost[{rc.exc}:{cl.name}]", goal, kind="xpost", serves=cl.serves, clause=cl.name,
                      assume_after=False)
        self.check_frame(ex, s, env, pre_heap, vtag)

    def check_frame(self, ex, s: State, env, pre_heap, vtag):
        """Every heap cell that existed at entry and is not covered by `modifies` must be unchanged."""
        c = self.contract
        allowed = set()
        for m in c.modifies:
            try:
                if m.endswith(".*"):
                    v = self.reg.resolve_path(ex, _with_heap(s, pre_heap), m[:-2], env)
                    if isinstance(v, VRef):
                        allowed.add((v.loc, "*"))
                else:
                    parts = m.split(".")
                    if len(parts) == 1:
                        v = env[parts[0]]
                        if isinstance(v, VRef):
                            allowed.add((v.loc, "*"))
                    else:
                        base = self.reg.resolve_path(ex, _with_heap(s, pre_heap), ".".join(parts[:-1]), env)
                        if isinstance(base, VRef):
                            allowed.add((base.loc, parts[-1]))
                            cur = pre_heap[base.loc]
                            if isinstance(cur, ObjCell) and isinstance(cur.fields.get(parts[-1]), VRef):
                                allowed.add((cur.fields[parts[-1]].loc, "*"))
            except (KeyError, EngineUnsupported):
                continue
        for loc, old in pre_heap.items():
            new = s.heap.get(loc)
            if new is old or (loc, "*") in allowed:
                continue
            diffs = []
            if isinstance(old, ListCell) and isinstance(new, ListCell):
                if old.elem is not None and new.elem is not None:
                    diffs.append(("content", new.seq == old.seq))
                else:
                    diffs.append(("content", z3.BoolVal(False)))
            elif isinstance(old, ObjCell) and isinstance(new, ObjCell):
                for k in set(old.fields) | set(new.fields):
                    if (loc, k) in allowed:
                        continue
                    a, b = old.fields.get(k), new.fields.get(k)
                    if a is b:
                        continue
                    if a is None or b is None:
                        diffs.append((k, z3.BoolVal(False)))
                    elif isinstance(a, VRef) or isinstance(b, VRef):
                        diffs.append((k, z3.BoolVal(isinstance(a, VRef) and isinstance(b, VRef) and a.loc == b.loc)))
                    else:
                        try:
                            diffs.append((k, ex.eq(s, a, b)))
                        except EngineUnsupported:
                            diffs.append((k, z3.BoolVal(False)))
            elif isinstance(old, DictCell) and isinstance(new, DictCell):
                for k in set(old.items) | set(new.items):
                    if (loc, k) in allowed:
                        continue
                    a, b = old.items.get(k), new.items.get(k)
                    pa, pb = old.present.get(k, False), new.present.get(k, False)
                    if a is b and pa is pb:
                        continue
                    if a is None or b is None:
                        diffs.append((k, z3.BoolVal(False)))
                    else:
                        try:
                            same = ex.eq(s, a, b)
                        except EngineUnsupported:
                            same = z3.BoolVal(False)
                        pa_t = z3.BoolVal(pa) if isinstance(pa, bool) else pa
                        pb_t = z3.BoolVal(pb) if isinstance(pb, bool) else pb
                        diffs.append((k, z3.And(pa_t == pb_t, z3.Implies(pa_t, same))))
            elif isinstance(old, IterCell):
                continue
            else:
                diffs.append(("cell", z3.BoolVal(False)))
            owner = getattr(old, "owner", "?")
            for k, goal in diffs:
                ex.oblige(s, f"frame[{owner}.{k}]", goal, kind="frame", serves=sorted(set(["C15"] + list(c.serves[:0]))),
                          assume_after=False)


def _with_heap(s: State, heap):
    s2 = s.clone()
    s2.heap = dict(heap)
    return s2


# ---------------------------------------------------------------------------------------------
def discharge(reg: Registry, ob: Obligation, both=False):
    t0 = time.time()
    g = z3.simplify(ob.goal)
    if z3.is_true(g):
        return {"name": ob.name, "result": "proved", "backend": "ground", "time_s": 0.0, "cached": False}
    r = None
    attempts = [(False, 0, "direct"), (True, 0, "extensionality"), (False, 1, "class-run facts"),
                (True, 1, "extensionality+class-run facts")]
    eg = ext_goal(ob.goal)
    if eg is not None:      # a sequence equality is (almost) never provable without extensionality: try that first
        attempts = [(True, 0, "extensionality"), (False, 0, "direct"), (True, 1, "extensionality+class-run facts"),
                    (False, 1, "class-run facts")]
    tried = []
    prepared = {}
    # staged hypotheses: first only the facts of the path itself (preconditions, branch conditions, class
    # invariants, axioms, discharged safety conditions), then everything (loop invariants, callee postconditions).
    # Proving from a subset of the hypotheses is sound.
    light = [(l, h) for l, h in ob.hyps if l.startswith(LIGHT_LABELS)]
    stages = []
    if ob.kind in ("safety", "call.pre") and len(light) < len(ob.hyps):
        stages.append(("path-facts", light))
    # inside nested loops: the path facts plus everything since the head of the innermost loop
    last = max((i for i, (l, _) in enumerate(ob.hyps) if l == "loop-index"), default=-1)
    if last > 0:
        inner = [(l, h) for i, (l, h) in enumerate(ob.hyps) if i >= last or l.startswith(LIGHT_LABELS)]
        if len(inner) < len(ob.hyps) and len(inner) > len(light):
            stages.append(("innermost-loop", inner))
    # invariants written per aspect: keep only the invariant conjuncts that serve a property the goal serves
    def related(label):
        if not label.startswith("inv:") or "|" not in label:
            return True
        tags = set(label.split("|", 1)[1].split(","))
        return bool(tags & set(ob.serves)) or not tags
    aspect = [(l, h) for l, h in ob.hyps if related(l)]
    if len(aspect) < len(ob.hyps):
        stages.append(("same-aspect", aspect))
    stages.append(("all", ob.hyps))
    plan = []
    for sname, shyps in stages:
        for use_ext, level, label in attempts:
            plan.append((sname, shyps, use_ext, level, label if sname == "all" else f"{label}/{sname}"))
    hint = HINTS.get(_hint_key(ob.name))
    if hint:
        plan.sort(key=lambda p: 0 if p[4] == hint else 1)      # proof hints only change the order of the attempts
    for sname, shyps, use_ext, level, label in plan:
        if use_ext and eg is None:
            continue
        if time.time() - t0 > OB_BUDGET_S and r is not None:
            tried.append("budget exhausted")
            break
        if sname not in ("all", "same-aspect") and level > 0:
            continue
        g0 = eg if use_ext else ob.goal
        try:
            hyps, goal = prepare_query(reg, shyps, g0, level=level)
        except Exception as e:  # pragma: no cover
            tried.append(f"{label}: prepare failed {e!r}")
            continue
        prepared[label] = (hyps, goal)
        # a hinted attempt (the one that discharged this obligation before) gets the full solver budget
        r2 = solve.check(hyps, goal, both=both, timeout_ms=(None if (hint and label == hint) else QUICK_ATTEMPT_MS),
                         use_cvc5=both)
        tried.append(f"{label}: {r2['result']} {r2['time_s']}s")
        if r2["result"] == "proved":
            r = r2
            r["tactic"] = label
            break
        if r is None or (r["result"] == "unknown" and r2["result"] == "refuted"):
            r = r2
            r["tactic"] = label
    if r is not None and r["result"] == "unknown" and prepared and os.environ.get("PYVC_FAST") != "1" \
            and time.time() - t0 < 2 * OB_BUDGET_S:
        # nothing decided within the quick budget: full budget on every prepared form, cvc5 for z3's unknowns
        for label, (hyps, goal) in prepared.items():
            r2 = solve.check(hyps, goal, both=both)
            tried.append(f"{label}(full): {r2['result']} {r2['time_s']}s")
            if r2["result"] in ("proved", "refuted"):
                r = r2
                r["tactic"] = label
                if r2["result"] == "proved":
                    break
    if r is None:
        r = {"result": "unknown", "backend": "none", "reason": "; ".join(tried), "time_s": 0.0}
    r["attempts"] = tried
    r["name"] = ob.name
    r["total_s"] = round(time.time() - t0, 3)
    return r


def ext_goal(goal):
    """Sequence extensionality: a == b  is implied by  len(a) == len(b) and a[k] == b[k] for a fresh k in range.
    Applied to every sequence equality that occurs positively as a conjunct (or consequent) of the goal."""
    changed = [False]

    def tr(t):
        if z3.is_quantifier(t) and t.is_forall():
            vs = [fresh(t.var_sort(i), "e_" + t.var_name(i)) for i in range(t.num_vars())]
            body = z3.substitute_vars(t.body(), *reversed(vs))
            nb = tr(body)
            return z3.ForAll(vs, nb)
        if z3.is_app(t) and t.sort() == BOOL:
            k = t.decl().kind()
            if k == z3.Z3_OP_AND:
                return z3.And(*[tr(c) for c in t.children()])
            if k == z3.Z3_OP_IMPLIES:
                return z3.Implies(t.arg(0), tr(t.arg(1)))
            if k == z3.Z3_OP_OR:
                cs = t.children()
                return z3.Or(*[tr(c) for c in cs])
            if k == z3.Z3_OP_EQ and z3.is_seq(t.arg(0)) and t.arg(0).sort() != STR:
                a, b = t.arg(0), t.arg(1)
                kk = fresh(INT, "ext_k")
                changed[0] = True
                return z3.And(z3.Length(a) == z3.Length(b),
                              z3.ForAll([kk], z3.Implies(z3.And(kk >= 0, kk < z3.Length(a)), a[kk] == b[kk])))
        return t
    g = tr(goal)
    return g if changed[0] else None


def verify_function(prog: Program, reg: Registry, qualname: str, only_serves=None, both=False, part=None, only_names=None):
    """Returns a JSON-serialisable report for one function."""
    rep = {"function": qualname, "status": "ok", "obligations": [], "error": None}
    t0 = time.time()
    try:
        fv = FunctionVerifier(prog, reg, qualname)
        if fv.contract.bounded_only and not os.environ.get("PYVC_TRY_BOUNDED"):
            raise EngineUnsupported("proof not attempted (bounded stand-in only): " + fv.contract.bounded_only)
        rep["fingerprint"] = fv.fi.fingerprint()
        rep["vc_hash"] = fv.fi.vc_hash(prog)
        rep["file"] = os.path.relpath(fv.fi.path, prog.repo)
        rep["line"] = fv.fi.node.lineno
        obligations, info = fv.run()
        rep["info"] = info
    except EngineUnsupported as e:
        rep["status"] = "out_of_reach"
        rep["error"] = str(e)
        rep["wall_s"] = round(time.time() - t0, 3)
        return rep
    except KeyError as e:
        rep["status"] = "missing"
        rep["error"] = str(e)
        rep["wall_s"] = round(time.time() - t0, 3)
        return rep
    except Exception as e:
        # an internal exception while executing the function symbolically (typically ill-typed code: a contract applied
        # to arguments of the wrong kind) is not a verdict about the code: the function is outside the verifier's reach
        # and its bounded stand-in decides.  On the unchanged tree this still surfaces (exit 2, "fell out of reach").
        rep["status"] = "out_of_reach"
        rep["error"] = f"engine exception, treated as outside the subset: {type(e).__name__}: {e}"[:300]
        rep["trace"] = traceback.format_exc()[-1200:]
        rep["wall_s"] = round(time.time() - t0, 3)
        return rep
    # several paths produce obligations of the same name: the uid (name + occurrence in execution order) tells them apart
    seen_names = {}
    for ob in obligations:
        k = seen_names.get(ob.name, 0)
        seen_names[ob.name] = k + 1
        ob.uid = f"{ob.name}#{k}"
    todo = [ob for ob in obligations if only_serves is None or (set(ob.serves) & set(only_serves))]
    rep["n_selected"] = len(todo)
    if only_names is not None:
        todo = [ob for ob in todo if ob.uid in only_names or ob.name in only_names]
    if part is not None:
        i, n = part
        todo = todo[i::n]

    def one(ob):
        r = discharge(reg, ob, both=both)
        r.update({"uid": ob.uid, "kind": ob.kind, "serves": ob.serves, "lineno": ob.lineno, "boundary": ob.boundary,
                  "clause": ob.clause})
        if ob.extra:
            r["extra"] = {k: str(v) for k, v in ob.extra.items()}
        if r["result"] != "proved":
            r["goal"] = str(ob.goal)[:600]
            r["hyp_labels"] = [lab for lab, _ in ob.hyps][-25:]
        return r

    nproc = int(os.environ.get("PYVC_OB_PROCS", "1"))
    if nproc > 1 and len(todo) > 6:
        rep["obligations"] = fork_map(one, todo, nproc)
    else:
        rep["obligations"] = [one(ob) for ob in todo]
    rep["wall_s"] = round(time.time() - t0, 3)
    return rep


def fork_map(fn, items, nproc):
    """Run fn over items in forked children (the z3 terms live in this process image; results come back as JSON)."""
    import tempfile
    n = min(nproc, len(items))
    files, pids = [], []
    for w in range(n):
        f = tempfile.NamedTemporaryFile("w", delete=False, suffix=".json", dir="/tmp")
        f.close()
        files.append(f.name)
        pid = os.fork()
        if pid == 0:
            out = []
            try:
                for i in range(w, len(items), n):
                    try:
                        out.append((i, fn(items[i])))
                    except Exception as e:  # pragma: no cover
                        out.append((i, {"name": items[i].name, "result": "unknown", "backend": "none",
                                        "reason": f"worker error {type(e).__name__}: {e}", "time_s": 0.0,
                                        "kind": items[i].kind, "serves": items[i].serves}))
                with open(files[w], "w") as fh:
                    json.dump(out, fh, default=str)
            finally:
                os._exit(0)
        pids.append(pid)
    for pid in pids:
        os.waitpid(pid, 0)
    res = [None] * len(items)
    for fnm in files:
        try:
            with open(fnm) as fh:
                for i, r in json.load(fh):
                    res[i] = r
        except Exception:
            pass
        os.unlink(fnm)
    for i, r in enumerate(res):
        if r is None:
            res[i] = {"name": items[i].name, "result": "unknown", "backend": "none", "reason": "worker died",
                      "time_s": 0.0, "kind": items[i].kind, "serves": items[i].serves}
    return res
