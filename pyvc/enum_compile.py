"""Bounded stand-in (B) for the pickle compiler as a whole: Compiler.compile on every AST of a bounded family of
document shapes, compared with the executable reference composition (DESIGN.md appendix B / contracts/specs):
pickles (count, order, source, tags, steps, types, arguments, substitution), ids (dense, canonical order), the
argument left unmodified, determinism.  Runs under the repository interpreter on the real code; never counted as proof.

Usage: enum_compile.py [--bound N] [--max-fail K] [--time-limit S]   -> one JSON line
"""
from __future__ import annotations

import argparse
import copy
import itertools
import json
import os
import sys
import time

VERIF = os.path.dirname(os.path.dirname(os.path.abspath(__file__)))
REPO = os.environ.get("VERIF_REPO", "/repo")
sys.path.insert(0, VERIF)
sys.path.insert(0, os.path.join(REPO, "python"))


# ---- the reference composition (written from the property statements C06-C11) ----------------------------------
def interpolate(text, header, row):
    if text is None:
        return None
    for h, v in zip(header, row):
        text = text.replace("<" + h["value"] + ">", v["value"])
    return text


def argument(step, header, cells):
    if "dataTable" in step:
        return {"dataTable": {"rows": [{"cells": [{"value": interpolate(c["value"], header, cells)} for c in r["cells"]]}
                                       for r in step["dataTable"]["rows"]]}}
    if "docString" in step:
        ds = step["docString"]
        out = {"content": interpolate(ds["content"], header, cells)}
        if "mediaType" in ds:
            out["mediaType"] = interpolate(ds["mediaType"], header, cells)
        return {"docString": out}
    return None


def effective_types(steps):
    out, last = [], "Unknown"
    for s in steps:
        if s["keywordType"] != "Conjunction":
            last = s["keywordType"]
        out.append(last)
    return out


def spec_pickles(doc, next_id=0):
    f = doc.get("feature")
    out = []
    if f is None:
        return out, next_id

    def scenarios():
        fbg = []
        for child in f["children"]:
            if "background" in child:
                fbg = fbg + child["background"]["steps"]
            elif "scenario" in child:
                yield None, list(fbg), child["scenario"]
            else:
                rule = child["rule"]
                rbg = list(fbg)
                for rc in rule["children"]:
                    if "background" in rc:
                        rbg = rbg + rc["background"]["steps"]
                    else:
                        yield rule, list(rbg), rc["scenario"]

    for rule, bg, sc in scenarios():
        rows = [(None, None)] if not sc["examples"] else [
            (ex, row) for ex in sc["examples"] if "tableHeader" in ex for row in ex["tableBody"]]
        for ex, row in rows:
            header = ex["tableHeader"]["cells"] if ex else []
            cells = row["cells"] if row else []
            tags = f["tags"] + (rule["tags"] if rule else []) + sc["tags"] + (ex["tags"] if ex else [])
            steps = (bg + sc["steps"]) if sc["steps"] else []
            types = effective_types(steps)
            psteps = []
            for k, (s, t) in enumerate(zip(steps, types)):
                own = k >= len(bg) and ex is not None
                ps = {"astNodeIds": [s["id"]] + ([row["id"]] if own else []), "id": str(next_id), "type": t,
                      "text": interpolate(s["text"], header, cells) if own else s["text"]}
                next_id += 1
                arg = argument(s, header if own else [], cells if own else [])
                if arg is not None:
                    ps["argument"] = arg
                psteps.append(ps)
            out.append({"astNodeIds": [sc["id"]] + ([row["id"]] if row else []), "id": str(next_id),
                        "tags": [{"astNodeId": t["id"], "name": t["name"]} for t in tags],
                        "name": interpolate(sc["name"], header, cells) if ex else sc["name"],
                        "language": f["language"], "steps": psteps, "uri": doc["uri"]})
            next_id += 1
    return out, next_id


# ---- bounded family of documents ----------------------------------------------------------------------------
class Ids:
    def __init__(self):
        self.n = 1000

    def next(self):
        self.n += 1
        return str(self.n)


LOC = {"line": 1, "column": 1}
KT = ["Context", "Conjunction", "Action", "Unknown", "Outcome"]


def mk_step(ids, kt, text, arg=None):
    s = {"id": ids.next(), "location": dict(LOC), "keyword": "K ", "keywordType": kt, "text": text}
    if arg == "table":
        s["dataTable"] = {"location": dict(LOC), "rows": [
            {"id": ids.next(), "location": dict(LOC), "cells": [{"location": dict(LOC), "value": "<a> x"},
                                                               {"location": dict(LOC), "value": "<b.c>"}]},
            {"id": ids.next(), "location": dict(LOC), "cells": [{"location": dict(LOC), "value": ""},
                                                               {"location": dict(LOC), "value": "<a><a>"}]}]}
    elif arg == "doc":
        s["docString"] = {"location": dict(LOC), "content": "c <a> \\<b.c>", "delimiter": '"""', "mediaType": "m/<a>"}
    elif arg == "doc0":
        s["docString"] = {"location": dict(LOC), "content": "", "delimiter": "```"}
    return s


def mk_tags(ids, names):
    return [{"id": ids.next(), "location": dict(LOC), "name": n} for n in names]


def mk_examples(ids, kind, tagnames):
    ex = {"id": ids.next(), "location": dict(LOC), "tags": mk_tags(ids, tagnames), "keyword": "Examples", "name": "",
          "description": "", "tableBody": []}
    if kind == "none":
        return ex
    header = ["a", "b.c"]
    ex["tableHeader"] = {"id": ids.next(), "location": dict(LOC),
                         "cells": [{"location": dict(LOC), "value": h} for h in header]}
    rows = {"header": [], "one": [["1", "<a>$\\1"]], "two": [["x\\", "(y"], ["<b.c>", ""]]}[kind]
    for r in rows:
        ex["tableBody"].append({"id": ids.next(), "location": dict(LOC),
                                "cells": [{"location": dict(LOC), "value": v} for v in r]})
    return ex


def mk_scenario(ids, nsteps, examples, tagnames, first_kt):
    steps = []
    kts = [first_kt, "Conjunction", "Outcome"]
    args = [None, "table", "doc", "doc0"]
    for i in range(nsteps):
        steps.append(mk_step(ids, kts[i % 3], f"s{i} <a> and <b.c> <axb>", args[(i + len(examples)) % 4]))
    return {"id": ids.next(), "location": dict(LOC), "tags": mk_tags(ids, tagnames), "keyword": "Scenario",
            "name": "n <a>", "description": "", "steps": steps,
            "examples": [mk_examples(ids, k, [f"@e{j}"] if j % 2 == 0 else []) for j, k in enumerate(examples)]}


def mk_background(ids, nsteps, last_kt):
    kts = ["Context", last_kt]
    return {"id": ids.next(), "location": dict(LOC), "keyword": "Background", "name": "", "description": "",
            "steps": [mk_step(ids, kts[i % 2] if i < nsteps - 1 else last_kt, f"bg{i} <a>", "table" if i == 1 else None)
                      for i in range(nsteps)]}


SCENARIO_SHAPES = [
    (0, ()), (1, ()), (2, ()), (3, ()),
    (0, ("one",)), (2, ("one",)), (2, ("two",)), (2, ("none",)), (2, ("header",)), (1, ("none", "two")),
    (2, ("one", "header", "two")), (3, ("two", "one")),
]
BG_SHAPES = [None, 0, 1, 2]


def child_options(ids_factory):
    """options for one feature/rule child (as constructor thunks over a shared id source)"""
    opts = []
    for ns, ex in SCENARIO_SHAPES:
        for kt in ("Context", "Conjunction"):
            opts.append(("scenario", ns, ex, kt))
    return opts


def documents(bound):
    """features with up to `bound` top-level children drawn from backgrounds, scenarios and rules (rules with up to 2
    children), all combinations; content fixed per shape (adversarial headers / values / placeholders)."""
    scen = [("scenario", ns, ex, kt) for ns, ex in SCENARIO_SHAPES for kt in ("Context", "Conjunction")]
    scen_small = [("scenario", ns, ex, kt) for ns, ex in ((0, ()), (2, ()), (2, ("two",)), (1, ("none", "two")), (0, ("one",)))
                  for kt in ("Conjunction",)]
    bgs = [("background", n, kt) for n in (0, 1, 2) for kt in ("Context", "Conjunction")]
    rules = []
    for rb in [None] + [("background", n, "Conjunction") for n in (0, 2)]:
        for n in range(0, 3):
            for combo in itertools.product(scen_small, repeat=n):
                rules.append(("rule", rb, combo))
    top = scen_small + [r for r in rules]
    first = [None] + bgs
    for fb in first:
        for n in range(0, bound + 1):
            pool = scen if n <= 1 else top
            for combo in itertools.product(pool, repeat=n):
                yield fb, combo
    # no feature at all
    yield "nofeature", ()


def build(fb, combo, with_tags=True):
    ids = Ids()
    if fb == "nofeature":
        return {"comments": [], "uri": "u.feature"}

    def child(c):
        if c[0] == "scenario":
            return {"scenario": mk_scenario(ids, c[1], c[2], ["@s"] if with_tags else [], c[3])}
        if c[0] == "background":
            return {"background": mk_background(ids, c[1], c[2])}
        rb, sub = c[1], c[2]
        kids = ([{"background": mk_background(ids, rb[1], rb[2])}] if rb else []) + [child(x) for x in sub]
        return {"rule": {"id": ids.next(), "location": dict(LOC), "tags": mk_tags(ids, ["@r", "@r"]), "keyword": "Rule",
                         "name": "r", "description": "", "children": kids}}
    children = ([child(fb)] if fb else []) + [child(c) for c in combo]
    return {"feature": {"tags": mk_tags(ids, ["@f"]), "location": dict(LOC), "language": "en", "keyword": "Feature",
                        "name": "f", "description": "", "children": children}, "comments": [], "uri": "u.feature"}


def check(doc):
    from gherkin.pickles.compiler import Compiler
    from gherkin.stream.id_generator import IdGenerator
    problems = []
    before = copy.deepcopy(doc)
    gen = IdGenerator()
    gen._id_counter = 7
    try:
        got = Compiler(gen).compile(doc)
    except Exception as e:
        return [f"compile raised {type(e).__name__}: {e}"]
    if doc != before:
        problems.append("compile modified the document it was given")
    want, nxt = spec_pickles(before, 7)
    if got != want:
        if len(got) != len(want):
            problems.append(f"{len(got)} pickles, expected {len(want)}")
        else:
            for i, (a, b) in enumerate(zip(got, want)):
                if a != b:
                    keys = [k for k in b if a.get(k) != b.get(k)] + [k for k in a if k not in b]
                    problems.append(f"pickle {i} differs in {keys}: got {json.dumps({k: a.get(k) for k in keys})[:300]} "
                                    f"expected {json.dumps({k: b.get(k) for k in keys})[:300]}")
                    break
    if gen._id_counter != nxt:
        problems.append(f"id counter {gen._id_counter} after compile, expected {nxt}")
    try:
        json.dumps(got)
    except Exception as e:
        problems.append(f"pickles not JSON-serialisable: {e}")
    gen2 = IdGenerator()
    gen2._id_counter = 7
    again = Compiler(gen2).compile(copy.deepcopy(before))
    if again != got:
        problems.append("compiling an equal document with an equal generator gave a different result")
    return problems


def main():
    ap = argparse.ArgumentParser()
    ap.add_argument("--bound", type=int, default=2)
    ap.add_argument("--max-fail", type=int, default=2)
    ap.add_argument("--time-limit", type=float, default=300)
    a = ap.parse_args()
    t0 = time.time()
    n, fails, exhausted = 0, [], True
    shapes = list(documents(a.bound))
    import random
    rnd = random.Random(int(os.environ.get("VERIF_SEED", "0") or 0))
    small = [x for x in shapes if len(x[1]) <= 1]
    big = [x for x in shapes if len(x[1]) > 1]
    rnd.shuffle(big)            # all small shapes first (exhaustively), then the larger ones in seeded random order
    for fb, combo in small + big:
        doc = build(fb, combo)
        n += 1
        p = check(doc)
        if p:
            fails.append({"shape": [fb, combo], "problems": p[:3], "document": doc})
            if len(fails) >= a.max_fail:
                exhausted = False
                break
        if time.time() - t0 > a.time_limit:
            exhausted = False
            break
    print(json.dumps({"results": [{"name": f"compile::bounded[all document shapes with up to {a.bound} top-level children]",
                                   "ok": not fails, "size": n, "detail": fails[0]["problems"][0] if fails else None,
                                   "witness": [{"shape": f["shape"], "problems": f["problems"]} for f in fails[:2]] or None,
                                   "exhausted": exhausted}], "wall_s": round(time.time() - t0, 2)}, default=str))


if __name__ == "__main__":
    main()
