#!/bin/bash
# usage: validate_mutant.sh <dir with patch.diff demo.py>   -> prints OK/FAIL lines; uses a scratch worktree
set -u
D=$1
WT=/tmp/wt_val_$$
git -C /repo worktree add -q --detach $WT HEAD || exit 2
cleanup(){ git -C /repo worktree remove --force $WT >/dev/null 2>&1; }
trap cleanup EXIT
cd $WT
(cd python && /venv/bin/python $D/demo.py >/dev/null 2>&1); clean=$?
git apply $D/patch.diff || { echo "FAIL apply $D"; exit 1; }
tests=$(/venv/bin/python -m pytest -q -p no:cacheprovider 2>&1 | tail -1)
(cd python && /venv/bin/python $D/demo.py >/tmp/demo_out_$$ 2>&1); mut=$?
rm -f /tmp/demo_out_$$
case "$tests" in *"30 passed"*) t=ok;; *) t="bad($tests)";; esac
if [ "$clean" = 0 ] && [ "$mut" = 1 ] && [ "$t" = ok ]; then echo "OK $D"; else echo "FAIL $D clean=$clean mut=$mut tests=$t"; fi
