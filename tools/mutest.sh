#!/bin/bash
# usage: mutest.sh '<sed expr>' <file under python/gherkin> <vf pattern...>
rm -rf /tmp/scr && mkdir -p /tmp/scr && cp -r /repo/python /tmp/scr/python
sed -i "$1" /tmp/scr/python/gherkin/$2
diff <(cat /repo/python/gherkin/$2) /tmp/scr/python/gherkin/$2 | head -5
shift 2
VERIF_REPO=/tmp/scr python3-vt tools/vf.py "$@" 2>&1 | grep -v WARNING | cut -c1-400 | head -${LINES_MAX:-12}
