#!/bin/bash
# quick iteration: short solver budgets, no full retries
PYVC_OB_PROCS=16 PYVC_FAST=1 PYVC_QUICK_MS=${T:-4000} python3-vt tools/vf.py "$@" 2>&1 | grep -v WARNING | cut -c1-${W:-260}
