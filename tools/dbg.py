import sys, os, time
sys.path.insert(0, os.path.dirname(os.path.dirname(os.path.abspath(__file__))))
import z3
from pyvc.loader import Program
from pyvc.registry import Registry
from pyvc import verify, solve
prog = Program(); reg = Registry(prog)
q=[k for k in reg.contracts if sys.argv[1] in k][0]
fv = verify.FunctionVerifier(prog, reg, q)
obs, info = fv.run()
for ob in obs:
    if sys.argv[2] not in ob.name: continue
    hyps, goal = verify.prepare_query(reg, ob.hyps, ob.goal)
    print(ob.name, "hyps", len(ob.hyps), "->", len(hyps))
    for lab,h in ob.hyps: print("  H", lab, str(h)[:150].replace("\n"," "))
    print("  G", str(goal)[:1500])
    s=z3.Solver(); s.set("timeout", 20000); s.add(*hyps); s.add(z3.Not(goal))
    t=time.time(); print(s.check(), time.time()-t)
    open("/tmp/q.smt2","w").write(s.to_smt2())
    if len(sys.argv)>3: 
        for h in hyps[len(ob.hyps):]: print("  F", str(h)[:200].replace("\n"," "))
    break
