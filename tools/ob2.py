"""python3-vt tools/ob2.py <func> <obl-substr> <idx> <stage: light|inner|all>  : show which conjunct of the goal fails in the counter-model"""
import sys, os, time
sys.path.insert(0, os.path.dirname(os.path.dirname(os.path.abspath(__file__))))
import z3
from pyvc.loader import Program
from pyvc.registry import Registry
from pyvc import verify
prog = Program(); reg = Registry(prog)
q=[k for k in reg.contracts if sys.argv[1] in k][0]
fv = verify.FunctionVerifier(prog, reg, q)
obs, info = fv.run()
sel=[o for o in obs if sys.argv[2] in o.name]
ob=sel[int(sys.argv[3])]
stage=sys.argv[4] if len(sys.argv)>4 else "all"
hyps=ob.hyps
if stage=="inner":
    last=max(i for i,(l,_) in enumerate(hyps) if l=="loop-index")
    hyps=[(l,h) for i,(l,h) in enumerate(hyps) if i>=last or l.startswith(verify.LIGHT_LABELS)]
print([l for l,_ in hyps])
eg=verify.ext_goal(ob.goal)
for g0,name in ((ob.goal,'direct'),(eg,'ext')):
    if g0 is None: continue
    hy,g=verify.prepare_query(reg,hyps,g0)
    s=z3.Solver(); s.set("timeout",int(os.environ.get("T","8000"))); s.add(*hy); s.add(z3.Not(g)); r=s.check(); print(name, r, len(hy))
    if r==z3.sat:
        m=s.model()
        gg=g
        while z3.is_app(gg) and gg.decl().kind()==z3.Z3_OP_NOT and gg.arg(0).decl().kind()==z3.Z3_OP_NOT: gg=gg.arg(0).arg(0)
        def conj(t,d=0):
            if z3.is_app(t) and t.decl().kind()==z3.Z3_OP_AND and d<4:
                for c in t.children(): yield from conj(c,d+1)
            elif z3.is_app(t) and t.decl().kind()==z3.Z3_OP_IMPLIES and d<4:
                if z3.is_true(m.eval(t.arg(0),model_completion=True)):
                    yield from conj(t.arg(1),d+1)
            else: yield t
        for c in conj(gg):
            v=m.eval(c,model_completion=True)
            if not z3.is_true(v): print("FALSE::", str(c)[:int(os.environ.get("W","900"))])
        break
