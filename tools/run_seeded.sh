#!/bin/bash
# usage: run_seeded.sh <seeded-id e.g. C02A> [property ids...]   (applies the patch to /repo, runs checks, reverts)
# prints, per property, the exit code and the violated obligations grouped by kind (P deductive / F finite / B bounded)
id=$1; shift
props="$@"; [ -z "$props" ] && props=${id:0:3}
cd /repo && git diff --quiet || { echo "/repo not clean"; exit 9; }
trap 'git -C /repo checkout -- . ' EXIT
git -C /repo apply /verif/seeded/$id/patch.diff || exit 9
for p in $props; do
  out=$(cd /verif && timeout 1800 ./check $p quick 2>&1); rc=$?; out=$(echo "$out" | grep -v WARNING)
  summary=$(echo "$out" | python3 -c "
import sys, json, re
P=F=B=0; names=[]
other=[]
for l in sys.stdin:
    m=re.match(r'VIOLATION property=\S+ replay=(\S+)', l)
    if m:
        try:
            v=json.load(open(m.group(1)))
        except Exception:
            continue
        k=v.get('kind')
        if k=='bounded' or 'bounded' in v.get('obligation',''): B+=1; names.append('B:'+v['obligation'][:70])
        elif k=='finite': F+=1; names.append('F:'+v['obligation'][:70])
        else: P+=1; names.append('P:'+v['obligation'].split('.')[-1][:70]+('' if v.get('input_found') else ' (no input)'))
    elif l.strip() and not l.startswith('KNOWN-FINDING'):
        other.append(l.strip()[:160])
try:
    ev=json.load(open('/verif/evidence/$p.json'))['coverage']
    st=f\"Pproved={ev.get('p_discharged')}/{ev.get('p_obligations')} undecided={len(ev.get('undecided',[]))} out_of_reach={[o['function'].split('.')[-1] for o in ev.get('out_of_reach',[])]}\"
except Exception as e:
    st='(no evidence)'
print(f'P={P} F={F} B={B} {st} ::', ' | '.join(names[:6]), ' || '.join(other[:2]))
")
  echo "[$id] $p exit=$rc $summary"
done
