#!/bin/bash
# usage: run_seeded.sh <seeded-id e.g. C02A> [property ids...]   (applies the patch to /repo, runs checks, reverts)
id=$1; shift
props="$@"; [ -z "$props" ] && props=${id:0:3}
cd /repo && git diff --quiet || { echo "/repo not clean"; exit 9; }
trap 'git -C /repo checkout -- . ' EXIT
git -C /repo apply /verif/seeded/$id/patch.diff || exit 9
for p in $props; do
  out=$(cd /verif && timeout 1500 ./check $p quick 2>&1); rc=$?; out=$(echo "$out" | grep -v WARNING)
  echo "[$id] $p exit=$rc :: $(echo "$out" | head -3 | cut -c1-260 | tr '\n' '|')"
done
