"""Regenerate proof_hints.json: for every obligation the attempt (hypothesis stage / tactic) that discharged it.
Hints only reorder the attempts of pyvc.verify.discharge; they never change what is proved."""
import sys, os, json, multiprocessing as mp
sys.path.insert(0, os.path.dirname(os.path.dirname(os.path.abspath(__file__))))
os.environ.setdefault("PYVC_NO_CACHE", "1")
from pyvc.loader import Program
from pyvc.registry import Registry
from pyvc.verify import verify_function
prog = Program(); reg = Registry(prog)

def work(t):
    q, part = t
    rep = verify_function(prog, reg, q, part=part)
    return [(o["name"], o.get("tactic"), o["result"], o.get("total_s")) for o in rep["obligations"]], rep["status"], q

if __name__ == "__main__":
    tasks = []
    for q, c in reg.contracts.items():
        if c.trusted or c.abstract or c.bounded_only or (c.inline and not c.ensures and c.result_is is None):
            continue
        n = 8 if len(c.loops) >= 2 else (2 if len(c.loops) == 1 else 1)
        for i in range(n):
            tasks.append((q, (i, n) if n > 1 else None))
    tasks.sort(key=lambda t: -len(reg.contracts[t[0]].loops))
    hints = {}
    bad = []
    with mp.get_context("fork").Pool(16) as pool:
        for obs, status, q in pool.imap_unordered(work, tasks):
            if status != "ok":
                bad.append((q, status))
            for name, tactic, result, tt in obs:
                if result == "proved" and tactic and tactic != "direct":
                    hints.setdefault(name, tactic)
                if result != "proved":
                    bad.append((name, result))
    path = os.path.join(os.path.dirname(os.path.dirname(os.path.abspath(__file__))), "proof_hints.json")
    old = {}
    if os.path.exists(path):
        old = json.load(open(path))
    old.update(hints)
    json.dump(old, open(path, "w"), indent=0, sort_keys=True)
    print("hints", len(old), "problems", bad[:20])
