#!/bin/bash
# usage: run_harmless.sh <name> <property ids...>  : applies a semantics-preserving patch to /repo, runs the checks, reverts.
# A VIOLATION (exit 1) on such a patch is a false alarm of the machinery; exit 0 or 2 (undecided) is acceptable.
n=$1; shift
cd /repo && git diff --quiet || { echo "/repo not clean"; exit 9; }
trap 'git -C /repo checkout -- . ' EXIT
git -C /repo apply /verif/seeded/harmless/$n.diff || exit 9
(cd /repo && /venv/bin/python -m pytest -q -p no:cacheprovider -x 2>&1 | tail -1)
for p in "$@"; do
  out=$(cd /verif && timeout 1800 ./check $p quick 2>&1 | grep -v WARNING); rc=$?
  echo "[$n] $p :: $(echo "$out" | tail -2 | cut -c1-300 | tr '\n' '|')"
done
