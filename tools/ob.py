"""debug one obligation: python3-vt tools/ob.py <func-substr> <obligation-substr> [index]"""
import sys, os, time
sys.path.insert(0, os.path.dirname(os.path.dirname(os.path.abspath(__file__))))
import z3
from pyvc.loader import Program
from pyvc.registry import Registry
from pyvc import verify
prog = Program(); reg = Registry(prog)
q=[k for k in reg.contracts if sys.argv[1] in k][0]
t=time.time()
fv = verify.FunctionVerifier(prog, reg, q)
obs, info = fv.run()
print("exec", round(time.time()-t,1), "s; obligations", len(obs))
sel=[o for o in obs if sys.argv[2] in o.name]
print(len(sel), "selected")
idx=int(sys.argv[3]) if len(sys.argv)>3 else 0
ob=sel[idx]
for level in (0,1):
    for ext in (False, True):
        g0 = verify.ext_goal(ob.goal) if ext else ob.goal
        if g0 is None: continue
        t=time.time()
        hy,g=verify.prepare_query(reg,ob.hyps,g0,level=level)
        s=z3.Solver(); s.set("timeout", int(os.environ.get("T","10000"))); s.add(*hy); s.add(z3.Not(g)); r=s.check()
        print(f"level={level} ext={ext}: {r} hyps={len(hy)} {round(time.time()-t,2)}s")
        if r==z3.unsat: break
print([l for l,_ in ob.hyps])
if len(sys.argv)>4:
    for l,h in ob.hyps: print("H",l,str(h)[:400].replace("\n"," "))
    print("G",str(ob.goal)[:3000])
