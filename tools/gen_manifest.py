"""Generates MANIFEST.json from pyvc/claims.py (kept in one place so that it stays valid)."""
import json, os, sys
VERIF = os.path.dirname(os.path.dirname(os.path.abspath(__file__)))
sys.path.insert(0, VERIF)
from pyvc.claims import CLAIMS, TECH
NA = {}   # properties not claimed: id -> reason
checks = []
for pid, c in sorted(CLAIMS.items()):
    if pid in NA:
        continue
    checks.append({"property_id": pid, "quick_cmd": f"./check {pid} quick", "thorough_cmd": f"./check {pid} thorough",
                   "evidence_file": f"/verif/evidence/{pid}.json",
                   "replay_cmd_template": f"./check {pid} quick  # replay file {{path}} names the obligation and the failing input",
                   "engine": "PyVC", "level_claimed": {"category": c["level"], "text": c["text"], "design_ref": c["ref"]},
                   "level_note": c["note"], "technique": TECH})
m = {
 "version": 1,
 "setup_cmd": "python3-vt -c \"import z3; print('z3', z3.get_version_string())\" && /venv/bin/python -c \"import sys; print(sys.version)\" && python3-vt -m compileall -q pyvc >/dev/null",
 "hooks": {"guard": "GHERKIN_VERIF", "enable": "no hook or instrumentation is compiled into cucumber/gherkin: contracts are sidecars under /verif/contracts, ghost state lives in the verifier, run-time stand-ins wrap the real functions from outside",
           "baseline_off_cmd": "cd /repo && /venv/bin/python -m pytest -ra -q -p no:cacheprovider --timeout=900 --continue-on-collection-errors",
           "source_commits": [], "add_only": True},
 "engines": [{"name": "PyVC", "path": "/verif/pyvc", "serves_properties": sorted(p for p in CLAIMS if p not in NA), "kind_free_text": TECH}],
 "checks": checks,
 "not_applicable": [{"property_id": k, "reason": v} for k, v in sorted(NA.items())],
 "notes": "fix commits in /repo: 3c996c6 (C09/C01), 7d9d77b (C10/C17), 0f0f58d (C03), 6983334 (C12); known finding D5 (C01) -- see known_findings.json. Exit codes of ./check: 0 held, 1 violation (VIOLATION line), 2 undecided, 3 checker error.",
}
json.dump(m, open(os.path.join(VERIF, "MANIFEST.json"), "w"), indent=1)
print("claimed", [c["property_id"] for c in checks], "not applicable", sorted(NA))
