"""Generates MANIFEST.json from the table below (kept in one place so that it stays valid)."""
import json, os
VERIF = os.path.dirname(os.path.dirname(os.path.abspath(__file__)))
TECH = "contract-based deductive verification of the real source: own ast->VC generator (PyVC) + z3/cvc5; finite-by-nature spaces enumerated completely; executable contracts as bounded stand-ins (never counted)"
CLAIMS = {
 "C02": ("proof", "Each of the 42 generated state functions is symbolically executed on the real source (loop-free, all matcher and look-ahead outcomes, EOF / non-EOF token, both error modes: a complete analysis); the resulting table is compared transition by transition with the five sibling parsers and shown bisimilar (accepted language, emitted rule nesting, tag attachment by look-ahead) to a transducer derived from gherkin.berp; lookahead_k and parse are proved against contracts with loop invariants and variants.", "DESIGN.md 5 C02",
         "trusted: PyVC, z3; textual readers of the sibling parsers and of the .berp format; the reference construction; kind-exclusivity of the matcher (Layer A) assumed on ghost functions"),
 "C06": ("proof", "compile, _compile_rule, _compile_scenario and _compile_scenario_outline are proved (loop invariants against fold specifications) to emit exactly the pickles of the reference composition in document order: one per plain scenario, one per body row of each examples table with a header, with uri, language, name and source ids.", "DESIGN.md 5 C06", "trusted: PyVC, z3; str.replace laws; well-formedness of the AST (rectangular tables, one key per envelope) is a precondition"),
 "C07": ("proof", "Pickle steps are proved to be feature background steps, rule background steps, then own steps (none when the scenario has no steps), arguments copied cell by cell; the rule-level list is proved to be a new list (frame obligation on the feature-level list).", "DESIGN.md 5 C07", "as C06"),
 "C08": ("proof", "Pickle tags are proved to be feature + rule + scenario (+ examples) tags in order, each (astNodeId, name).", "DESIGN.md 5 C08", "as C06"),
 "C09": ("proof", "_interpolate is proved equal to the fold of literal replace_all over the header columns; every call site (name, step text, cells, doc string content and media type) and the absence of substitution for background steps are part of the proved outline contract.", "DESIGN.md 5 C09", "trusted: str.replace is literal, leftmost, non-overlapping replacement (uninterpreted replace_all with validated laws)"),
 "C10": ("proof", "The effective-type fold (and/but inherit, first is Unknown) is proved for plain scenarios and outlines with the same specification function; the type field is a string in every constructed pickle step.", "DESIGN.md 5 C10", "as C06; keyword category map of the matcher is Layer A"),
 "C12": ("proof", "split_table_cells is proved equal to the escape transducer (fold specification) for all rows by a loop invariant; table_cells is proved to trim blanks-not-LF around each cell and to report the column of the first non-blank character.", "DESIGN.md 5 C12", "trusted: PyVC, z3, regex-shape and strip axioms (validated against CPython on a bounded domain)"),
 "C18": ("proof", "read_token, lookahead_k (queue/stream preservation, run shape, termination) and parse (every line token handed to match_token once in order, then one EOF; accepted documents deliver exactly these to the builder) are proved; each state function path builds the token exactly once or reports it (finite-exhaustive over the extracted table); token listings equal the 46 reference listings.", "DESIGN.md 5 C18", "trusted: PyVC, z3; match_token's abstract contract is justified by the automaton obligations; scanner ghost view (line k = k-th segment) is Layer A"),
}
NA = {
 "C01": "under construction: safety/raises clauses exist for parser and compiler layers; matcher/builder/stream layers not yet under contract",
 "C03": "under construction (builder layer)", "C04": "under construction (line/column clauses partly proved: table cells; tags bounded)",
 "C05": "under construction (matcher layer)", "C11": "under construction", "C13": "under construction", "C14": "under construction",
 "C15": "under construction", "C16": "under construction", "C17": "under construction", "C19": "under construction",
}
checks = []
for pid, (cat, text, ref, note) in sorted(CLAIMS.items()):
    checks.append({"property_id": pid, "quick_cmd": f"./check {pid} quick", "thorough_cmd": f"./check {pid} thorough",
                   "evidence_file": f"/verif/evidence/{pid}.json", "replay_cmd_template": f"./check {pid} quick  # replay file {{path}} names the obligation and the failing input",
                   "engine": "PyVC", "level_claimed": {"category": cat, "text": text, "design_ref": ref},
                   "level_note": note, "technique": TECH})
m = {
 "version": 1,
 "setup_cmd": "python3-vt -c \"import z3; print('z3', z3.get_version_string())\" && /venv/bin/python -c \"import sys; print(sys.version)\" && python3-vt -m compileall -q pyvc >/dev/null",
 "hooks": {"guard": "GHERKIN_VERIF", "enable": "no hook or instrumentation is compiled into cucumber/gherkin: contracts are sidecars under /verif/contracts, ghost state lives in the verifier, run-time stand-ins wrap the real functions from outside",
           "baseline_off_cmd": "cd /repo && /venv/bin/python -m pytest -ra -q -p no:cacheprovider --timeout=900 --continue-on-collection-errors",
           "source_commits": [], "add_only": True},
 "engines": [{"name": "PyVC", "path": "/verif/pyvc", "serves_properties": sorted(CLAIMS), "kind_free_text": TECH}],
 "checks": checks,
 "not_applicable": [{"property_id": k, "reason": v} for k, v in sorted(NA.items()) if k not in CLAIMS],
 "notes": "fix commits in /repo: 3c996c6 (C09/C01), 7d9d77b (C10/C17), 0f0f58d (C03), 6983334 (C12); see known_findings.json",
}
json.dump(m, open(os.path.join(VERIF, "MANIFEST.json"), "w"), indent=1)
print("claimed", sorted(CLAIMS), "not applicable", sorted(k for k in NA if k not in CLAIMS))
