"""Builds the seeded-change catch matrix (markdown) from run_seeded.sh logs: python3 tools/gen_matrix.py log1 log2 ... > matrix.md
Later logs override earlier ones for the same change."""
import re, json, sys
rows = {}
for fn in sys.argv[1:]:
    for l in open(fn):
        m = re.match(r'\[(C\d\d[A-F])\] (C\d\d) exit=(\d) P=(\d+) F=(\d+) B=(\d+) Pproved=(\S+) undecided=(\d+) out_of_reach=(\[.*?\]) :: (.*)', l)
        if m:
            rows[m.group(1)] = m.groups()
declared = {'tags', '_change_dialect', '_match_title_line', '_is_gfm_table_separator', 'match_TagLine'}
out = ["| change | what it does | exit | P: refuted obligations (deductive) | F: complete enumeration | B: bounded stand-in with failing input | fell out of reach |", "|---|---|---|---|---|---|---|"]
np = nf = nb = n1 = 0
for sid in sorted(rows):
    _, pid, rc, P, F, B, pp, und, oor, names = rows[sid]
    meta = json.load(open(f'/verif/seeded/{sid}/meta.json'))
    summ = meta.get('summary', '').replace('\n', ' ').replace('|', '/')
    summ = summ[:130] + ('…' if len(summ) > 130 else '')
    parts = [x.strip() for x in names.split(' | ')]
    p_names = sorted({x[2:].split(' (no')[0] for x in parts if x.startswith('P:')})
    f_names = sorted({x[2:].split('[')[0] for x in parts if x.startswith('F:')})
    b_names = sorted({x[2:].split('[')[0].replace('gherkin.gherkin_line.GherkinLine.', '') for x in parts if x.startswith('B:')})
    try:
        oo = ", ".join(x for x in json.loads(oor.replace("'", '"')) if x not in declared) or "–"
    except Exception:
        oo = oor
    np += bool(p_names); nf += bool(f_names); nb += bool(b_names); n1 += rc == "1"
    out.append(f"| {sid} | {summ} | {rc} | {', '.join(p_names)[:110] if p_names else '–'} | {', '.join(f_names) or '–'} | {', '.join(b_names) or '–'} | {oo} |")
print(f"<!-- {len(rows)} changes; exit 1: {n1}; with P refutation: {np}; with F: {nf}; with B: {nb} -->")
print("\n".join(out))
