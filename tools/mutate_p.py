"""Mutation testing of the deductive layer: how strong are the contracts?

For every function under contract, small syntactic mutants of the *function body* are generated (comparison and boolean
operators, off-by-one constants, + / -, dropped statements, swapped call arguments, negated conditions), written into a
scratch copy of python/gherkin, and the function is re-verified.  A mutant on which every obligation is still proved is
a *survivor*: either it is semantically equivalent, or the contract is too weak (or the engine unsound).  Survivors are
then run through the bounded harnesses on the same scratch copy: a survivor the harness kills is a contract weakness.

    python3-vt tools/mutate_p.py [--max-per-function N] [--procs P] [pattern ...]  > report.json
Scratch copies live under /tmp/mutp_* and are removed.
"""
import ast, copy, json, multiprocessing as mp, os, shutil, subprocess, sys, tempfile, time

sys.path.insert(0, os.path.dirname(os.path.dirname(os.path.abspath(__file__))))
os.environ.setdefault("PYVC_FAST", "1")
os.environ.setdefault("PYVC_QUICK_MS", "6000")
os.environ.setdefault("PYVC_OB_BUDGET_S", "25")
os.environ["PYVC_NO_CACHE"] = "1"
REPO = "/repo"
VERIF = os.path.dirname(os.path.dirname(os.path.abspath(__file__)))

CMP = {ast.Eq: ast.NotEq, ast.NotEq: ast.Eq, ast.Lt: ast.LtE, ast.LtE: ast.Lt, ast.Gt: ast.GtE, ast.GtE: ast.Gt,
       ast.In: ast.NotIn, ast.NotIn: ast.In, ast.Is: ast.IsNot, ast.IsNot: ast.Is}


def mutants_of(fn_node):
    """yield (description, mutated copy of fn_node)"""
    nodes = list(ast.walk(fn_node))
    for idx, n in enumerate(nodes):
        def variant(mut):
            c = copy.deepcopy(fn_node)
            target = list(ast.walk(c))[idx]
            mut(target)
            return c
        ln = getattr(n, "lineno", 0)
        if isinstance(n, ast.Compare) and len(n.ops) == 1 and type(n.ops[0]) in CMP:
            new = CMP[type(n.ops[0])]
            yield f"L{ln}: {type(n.ops[0]).__name__} -> {new.__name__}", variant(lambda t: setattr(t, "ops", [new()]))
        elif isinstance(n, ast.BoolOp):
            new = ast.Or if isinstance(n.op, ast.And) else ast.And
            yield f"L{ln}: {type(n.op).__name__} -> {new.__name__}", variant(lambda t: setattr(t, "op", new()))
        elif isinstance(n, ast.UnaryOp) and isinstance(n.op, ast.Not):
            def drop_not(t):
                t.op = ast.UAdd() if False else t.op
            # `not x` -> `x` : rebuild through the parent is awkward; use double negation trick: not x -> not (not x)
            yield f"L{ln}: not x -> x", variant(lambda t: setattr(t, "operand", ast.UnaryOp(op=ast.Not(), operand=t.operand)))
        elif isinstance(n, ast.Constant) and isinstance(n.value, bool):
            yield f"L{ln}: {n.value} -> {not n.value}", variant(lambda t: setattr(t, "value", not t.value))
        elif isinstance(n, ast.Constant) and isinstance(n.value, int) and not isinstance(n.value, bool) and abs(n.value) <= 12:
            yield f"L{ln}: {n.value} -> {n.value + 1}", variant(lambda t: setattr(t, "value", t.value + 1))
        elif isinstance(n, ast.Constant) and isinstance(n.value, str) and 0 < len(n.value) <= 24 and not n.value.startswith("__"):
            yield f"L{ln}: {n.value!r} -> {n.value + '~'!r}", variant(lambda t: setattr(t, "value", t.value + "~"))
        elif isinstance(n, ast.BinOp) and isinstance(n.op, (ast.Add, ast.Sub)):
            new = ast.Sub if isinstance(n.op, ast.Add) else ast.Add
            yield f"L{ln}: {type(n.op).__name__} -> {new.__name__}", variant(lambda t: setattr(t, "op", new()))
        elif isinstance(n, ast.AugAssign) and isinstance(n.op, (ast.Add, ast.Sub)):
            new = ast.Sub if isinstance(n.op, ast.Add) else ast.Add
            yield f"L{ln}: {type(n.op).__name__}= -> {new.__name__}=", variant(lambda t: setattr(t, "op", new()))
        elif isinstance(n, ast.Call) and len(n.args) >= 2 and not any(isinstance(a, ast.Starred) for a in n.args):
            def swap(t):
                t.args[0], t.args[1] = t.args[1], t.args[0]
            yield f"L{ln}: swap first two arguments of {ast.unparse(n.func)[:30]}", variant(swap)
        elif isinstance(n, ast.If):
            yield f"L{ln}: if c -> if not c", variant(lambda t: setattr(t, "test", ast.UnaryOp(op=ast.Not(), operand=t.test)))
        elif isinstance(n, ast.IfExp):
            def swap_branches(t):
                t.body, t.orelse = t.orelse, t.body
            yield f"L{ln}: swap conditional-expression branches", variant(swap_branches)
        elif isinstance(n, ast.Expr) and isinstance(n.value, ast.Call) and n is not fn_node.body[0]:
            def to_pass(t):
                t.value = ast.Constant(value=None)
            yield f"L{ln}: drop statement {ast.unparse(n)[:40]}", variant(to_pass)
        elif isinstance(n, ast.Slice) and n.lower is not None:
            yield f"L{ln}: slice lower +1", variant(lambda t: setattr(t, "lower", ast.BinOp(left=t.lower, op=ast.Add(), right=ast.Constant(value=1))))


def locate(tree, cls, name, lineno):
    for n in ast.walk(tree):
        if isinstance(n, (ast.FunctionDef,)) and n.name == name and n.lineno == lineno:
            return n
    return None


def replace_function(tree, old, new):
    for n in ast.walk(tree):
        for field, val in ast.iter_fields(n):
            if isinstance(val, list):
                for i, x in enumerate(val):
                    if x is old:
                        val[i] = new
                        return True
    return False


def run_one(task):
    qual, relpath, fname, lineno, k, desc, new_src = task
    from pyvc.loader import Program
    from pyvc.registry import Registry
    from pyvc import verify
    scratch = tempfile.mkdtemp(prefix="mutp_", dir="/tmp")
    t0 = time.time()
    try:
        shutil.copytree(os.path.join(REPO, "python"), os.path.join(scratch, "python"),
                        ignore=shutil.ignore_patterns("__pycache__", "*.pyc", "test", ".pytest_cache"))
        for extra in ("gherkin.berp", "gherkin-languages.json"):
            shutil.copy(os.path.join(REPO, extra), os.path.join(scratch, extra))
        with open(os.path.join(scratch, relpath), "w", encoding="utf8") as f:
            f.write(new_src)
        prog = Program(scratch)
        reg = Registry(prog)
        quals = qual.split("|")
        qual = quals[0].split("#")[0] if len(quals) > 1 else qual
        reps = [verify.verify_function(prog, reg, q) for q in quals]
        rep = {"status": "ok", "obligations": [o for r in reps for o in r.get("obligations", [])]}
        not_ok = [r for r in reps if r["status"] != "ok"]
        res = {"function": qual, "mutant": desc, "k": k}
        if not_ok and not any(o["result"] == "refuted" for o in rep["obligations"]):
            res["verdict"] = not_ok[0]["status"]
            res["detail"] = (not_ok[0].get("error") or "")[:160]
        else:
            rs = [o["result"] for o in rep["obligations"]]
            res["obligations"] = len(rs)
            if any(r == "refuted" for r in rs):
                res["verdict"] = "refuted"
                res["detail"] = [o["name"].split("::")[-1] for o in rep["obligations"] if o["result"] == "refuted"][:3]
            elif any(r != "proved" for r in rs):
                res["verdict"] = "unknown"
                res["detail"] = [o["name"].split("::")[-1] for o in rep["obligations"] if o["result"] != "proved"][:3]
            else:
                res["verdict"] = "SURVIVED"
                # is it semantically different?  ask the harnesses on the same scratch copy
                res["harness"] = harness(scratch, qual)
        res["wall_s"] = round(time.time() - t0, 1)
        return res
    except Exception as e:
        return {"function": qual, "mutant": desc, "k": k, "verdict": "error", "detail": f"{type(e).__name__}: {e}"[:200]}
    finally:
        shutil.rmtree(scratch, ignore_errors=True)


def harness(scratch, qual):
    env = dict(os.environ)
    env["VERIF_REPO"] = scratch
    out = {}
    py = "/venv/bin/python"

    def run(name, args, timeout=300):
        try:
            p = subprocess.run([py] + args, capture_output=True, text=True, env=env, timeout=timeout, cwd=VERIF)
            line = [l for l in p.stdout.split("\n") if l.startswith("{")]
            if not line:
                return "crash: " + (p.stderr or p.stdout)[-120:]
            d = json.loads(line[-1])
            if "results" in d:
                bad = [r["name"][:50] for r in d["results"] if not r["ok"]]
                return bad or "pass"
            return "pass" if not d.get("failures") else [f.get("clause") for f in d["failures"][:2]]
        except subprocess.TimeoutExpired:
            return "timeout"
    out["rtcheck"] = run("rtcheck", [os.path.join(VERIF, "pyvc", "rtcheck.py"), "--function", qual, "--bound", "3",
                                      "--max-cases", "20000", "--time-limit", "40"], 90)
    out["documents"] = run("documents", [os.path.join(VERIF, "pyvc", "enum_documents.py"), "--count", "60"], 200)
    if ".pickles.compiler." in qual:
        out["compile"] = run("compile", [os.path.join(VERIF, "pyvc", "enum_compile.py"), "--bound", "2", "--time-limit", "40"], 120)
    if ".parser." in qual:
        out["traces"] = run("traces", [os.path.join(VERIF, "pyvc", "enum_parser_traces.py"), "--bound", "3"], 300)
    if ".token_matcher." in qual or ".dialect." in qual or ".gherkin_line." in qual:
        out["matcher"] = run("matcher", [os.path.join(VERIF, "pyvc", "enum_matcher.py"), "--bound", "2"], 200)
    if "markdown" in qual:
        out["markdown"] = run("markdown", [os.path.join(VERIF, "pyvc", "enum_markdown.py"), "quick"], 200)
    return out


def main():
    import argparse
    ap = argparse.ArgumentParser()
    ap.add_argument("--max-per-function", type=int, default=8)
    ap.add_argument("--procs", type=int, default=12)
    ap.add_argument("--max-loops", type=int, default=1, help="skip functions whose contract has more loop contracts")
    ap.add_argument("patterns", nargs="*")
    a = ap.parse_args()
    from pyvc.loader import Program
    from pyvc.registry import Registry
    prog = Program(REPO)
    reg = Registry(prog)
    tasks = []
    variants = {}
    for q in reg.contracts:
        if "#" in q:
            variants.setdefault(q.split("#")[0], []).append(q)
    done_bases = set()
    import random
    rnd = random.Random(int(os.environ.get("VERIF_SEED", "0") or 0))
    for q, c in reg.contracts.items():
        if c.trusted or c.abstract or c.inline or c.bounded_only or "@" in q:
            continue
        base = q.split("#")[0]
        if a.patterns and not any(p in q for p in a.patterns):
            continue
        if base in variants:
            # a function verified in several variants (one per branch): every mutant is run against all variants
            if base in done_bases:
                continue
            done_bases.add(base)
            q = "|".join(variants[base])
        if len(c.loops) > a.max_loops:
            continue
        fi = prog.funcs.get(base)
        if fi is None:
            continue
        relpath = os.path.relpath(fi.path, REPO)
        src = open(fi.path, encoding="utf8").read()
        tree = ast.parse(src)
        fn = locate(tree, fi.cls, fi.node.name, fi.node.lineno)
        if fn is None:
            continue
        ms = list(mutants_of(fn))
        rnd.shuffle(ms)
        for k, (desc, new_fn) in enumerate(ms[: a.max_per_function]):
            t2 = ast.parse(src)
            old = locate(t2, fi.cls, fi.node.name, fi.node.lineno)
            if not replace_function(t2, old, new_fn):
                continue
            ast.fix_missing_locations(t2)
            try:
                new_src = ast.unparse(t2)
            except Exception:
                continue
            tasks.append((q, relpath, fi.node.name, fi.node.lineno, k, desc, new_src))
    sys.stderr.write(f"{len(tasks)} mutants of {len({t[0] for t in tasks})} functions\n")
    results = []
    with mp.get_context("fork").Pool(a.procs, maxtasksperchild=1) as pool:
        for r in pool.imap_unordered(run_one, tasks):
            results.append(r)
            sys.stderr.write(f"{r['verdict']:12s} {r['function'].split('gherkin.')[-1]:60s} {r['mutant'][:60]} {r.get('harness', '')}\n")
    summary = {}
    for r in results:
        summary[r["verdict"]] = summary.get(r["verdict"], 0) + 1
    weak = [r for r in results if r["verdict"] == "SURVIVED" and any(v not in ("pass",) and not str(v).startswith(("crash", "timeout"))
                                                                      for v in r.get("harness", {}).values())]
    print(json.dumps({"summary": summary, "survivors_killed_by_harness": weak,
                      "survivors_equivalent_or_unknown": [r for r in results if r["verdict"] == "SURVIVED" and r not in weak],
                      "all": results}, indent=1, default=str))


if __name__ == "__main__":
    main()
