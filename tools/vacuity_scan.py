"""Vacuity scan: for every obligation of every function under contract, try to prove `False` from its hypotheses alone.
A success means the obligation (and everything else on that path) is discharged from a contradiction -- a hole in the
contracts or in the engine, never a property of the code.  Run on the unchanged tree:  python3-vt tools/vacuity_scan.py
Prints the vacuous obligations (expected: none) and a summary line."""
import sys, os, json, multiprocessing as mp, copy
sys.path.insert(0, os.path.dirname(os.path.dirname(os.path.abspath(__file__))))
os.environ.setdefault("PYVC_FAST", "1")
os.environ.setdefault("PYVC_QUICK_MS", "4000")
os.environ["PYVC_NO_CACHE"] = "1"
import z3
from pyvc.loader import Program
from pyvc.registry import Registry
from pyvc import verify
from pyvc.executor import Obligation
prog = Program(); reg = Registry(prog)


def work(q):
    out = {"function": q, "n": 0, "vacuous": [], "error": None}
    try:
        fv = verify.FunctionVerifier(prog, reg, q)
        if fv.contract.bounded_only:
            return out
        obs, _ = fv.run()
    except Exception as e:
        out["error"] = f"{type(e).__name__}: {e}"[:200]
        return out
    seen = set()
    for ob in obs:
        key = tuple(h.get_id() for _, h in ob.hyps)
        if key in seen:
            continue
        seen.add(key)
        out["n"] += 1
        fake = Obligation(ob.name + "::FALSE", ob.kind, ob.func, ob.hyps, z3.BoolVal(False), ob.serves, ob.lineno)
        fake.uid = fake.name
        try:
            r = verify.discharge(reg, fake)
        except Exception as e:
            continue
        if r["result"] == "proved":
            out["vacuous"].append({"obligation": ob.name, "labels": [l for l, _ in ob.hyps][-8:]})
    return out


if __name__ == "__main__":
    qs = [q for q, c in reg.contracts.items() if not (c.trusted or c.abstract or (c.inline and not c.ensures and c.result_is is None))]
    pats = sys.argv[1:]
    if pats:
        qs = [q for q in qs if any(p in q for p in pats)]
    tot = vac = 0
    with mp.get_context("fork").Pool(int(os.environ.get("PROCS", "8")), maxtasksperchild=1) as pool:
        for r in pool.imap_unordered(work, qs):
            tot += r["n"]
            if r["error"]:
                print("ERROR", r["function"], r["error"])
            for v in r["vacuous"]:
                vac += 1
                print("VACUOUS", r["function"], v["obligation"], v["labels"])
    print(f"vacuity scan: {len(qs)} functions, {tot} distinct hypothesis sets, {vac} vacuous")
