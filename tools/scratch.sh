#!/bin/bash
# scratch.sh <seeded-id>: scratch copy of /repo at /tmp/scr with the seeded patch applied (no git metadata)
rm -rf /tmp/scr && mkdir -p /tmp/scr && (cd /repo && git archive HEAD python gherkin.berp gherkin-languages.json testdata java/src/main/java/io/cucumber/gherkin/Parser.java go/parser.go ruby/lib/gherkin/parser.rb c/src/parser.c javascript/src/Parser.ts MARKDOWN_WITH_GHERKIN.md README.md | tar -x -C /tmp/scr)
[ -n "$1" ] && (cd /tmp/scr && patch -s -p1 < /verif/seeded/$1/patch.diff)
echo "scratch ready: /tmp/scr ($1)"
