"""debug driver: python3-vt tools/vf.py <qualname-substring> ..."""
import sys, os, json
sys.path.insert(0, os.path.dirname(os.path.dirname(os.path.abspath(__file__))))
from pyvc.loader import Program
from pyvc.registry import Registry
from pyvc.verify import verify_function
prog = Program(); reg = Registry(prog)
pats = sys.argv[1:]
for q in reg.contracts:
    if pats and not any((p in q) if not p.endswith('$') else q.endswith(p[:-1]) for p in pats): continue
    c = reg.contracts[q]
    if c.trusted or c.abstract: continue
    rep = verify_function(prog, reg, q)
    obs = rep["obligations"]
    bad = [o for o in obs if o["result"] != "proved"]
    print(f"{q}: {rep['status']} obligations={len(obs)} proved={len(obs)-len(bad)} wall={rep['wall_s']}s", rep.get("error") or "")
    for o in bad:
        print("   ", o["result"], o["name"], o.get("backend"), o.get("reason",""), "\n      goal:", o.get("goal","")[:300], "\n      model:", json.dumps(o.get("model"))[:400] if o.get("model") else "")
