"""Regenerate baseline.json (per function: vc_hash, status, obligations proved) and proof_hints.json on the current tree.
Run on the unchanged tree only; commit the result."""
import sys, os, json, multiprocessing as mp
sys.path.insert(0, os.path.dirname(os.path.dirname(os.path.abspath(__file__))))
from pyvc.loader import Program
from pyvc.registry import Registry
from pyvc.verify import verify_function
prog = Program(); reg = Registry(prog)
VERIF = os.path.dirname(os.path.dirname(os.path.abspath(__file__)))

KNOWN = json.load(open(os.path.join(VERIF, "known_findings.json"))).get("findings", [])


def work(t):
    q, part = t
    rep = verify_function(prog, reg, q, part=part)
    fi = prog.funcs.get(q.split("@")[0].split("#")[0])
    return {"function": q, "status": rep["status"], "error": rep.get("error"), "vc_hash": rep.get("vc_hash"),
            "fingerprint": rep.get("fingerprint"),
            "locals_order": fi.locals_order() if fi else None, "alpha_hash": fi.alpha_hash() if fi else None,
            "obs": [(o["name"], o.get("tactic"), o["result"]) for o in rep["obligations"]]}

if __name__ == "__main__":
    tasks = []
    for q, c in reg.contracts.items():
        if c.trusted or c.abstract or (c.inline and not c.ensures and c.result_is is None):
            continue
        n = 8 if len(c.loops) >= 2 else (2 if len(c.loops) == 1 else 1)
        for i in range(n):
            tasks.append((q, (i, n) if n > 1 else None))
    tasks.sort(key=lambda t: -len(reg.contracts[t[0]].loops))
    funcs, hints, bad = {}, {}, []
    with mp.get_context("fork").Pool(int(os.environ.get("PROCS", "12")), maxtasksperchild=1) as pool:
        for r in pool.imap_unordered(work, tasks):
            f = funcs.setdefault(r["function"], {"status": r["status"], "vc_hash": r["vc_hash"], "fingerprint": r["fingerprint"],
                                                 "locals_order": r.get("locals_order"), "alpha_hash": r.get("alpha_hash"),
                                                 "obligations": 0, "proved": 0, "error": r["error"]})
            for name, tactic, result in r["obs"]:
                f["obligations"] += 1
                if result == "proved":
                    f["proved"] += 1
                    if tactic and tactic != "direct":
                        hints.setdefault(name, tactic)
                elif any(k.get("status") == "known" and k.get("obligation") and k["obligation"] in name for k in KNOWN):
                    f["obligations"] -= 1      # a listed known finding: not part of the verified baseline
                    f.setdefault("known_findings", []).append(name)
                else:
                    bad.append((name, result))
    for q, f in funcs.items():
        f["all_proved"] = f["status"] == "ok" and f["proved"] == f["obligations"]
    hp = os.path.join(VERIF, "proof_hints.json")
    old = json.load(open(hp)) if os.path.exists(hp) else {}
    old.update(hints)
    json.dump(old, open(hp, "w"), indent=0, sort_keys=True)
    json.dump({"repo_head": os.popen("git -C /repo rev-parse HEAD").read().strip(), "functions": funcs},
              open(os.path.join(VERIF, "baseline.json"), "w"), indent=1, sort_keys=True)
    print("functions", len(funcs), "obligations", sum(f["obligations"] for f in funcs.values()),
          "proved", sum(f["proved"] for f in funcs.values()), "not proved:", bad[:20])
